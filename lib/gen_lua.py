# gen_lua.py — Lua program generator shared by the language-level checks
# (C01, C11; reusable by C09/C10/C13/C14/C05).
#
#   * AST: `Node(kind, *args)`; constructors E_*/S_* below.  The AST is the one of
#     coq/theories/Lua/Syntax.v plus the syntactic sugar the renderer can spell
#     (`function t.a:m() end`).
#   * render(block, style, rng)  -> Lua source text; as a side effect every statement
#     node gets `.line` (if-arms: `.armlines`, repeat: `.until_line`) for THIS rendering.
#     Styles differ in parenthesisation, whitespace/comments/line breaks, literal
#     spellings and sugar; all styles denote the same AST.
#   * serialize(block) -> the S-expression read by oracle/luacore (uses the line
#     numbers of the most recent render()).
#   * ProgramGen(rng, profile).program() -> (block, [argument tuples], features)
#     Definedness discipline (DESIGN.md Appendix C.3): the generated programs never
#     observe pairs/next order, addresses, tostring of floats/tables, closure
#     identity, error-message text of run-time errors, `#` of tables with holes;
#     an expression (statement) contains at most one impure sub-expression unless
#     sequenced by and/or; expressions that share a statement with an impure call
#     read no state a function may write; loops are bounded by construction.
#   * shrink(block, still_fails) -> smaller block (AST reduction).
import struct


class Node:
    __slots__ = ("k", "a", "line", "armlines", "until_line")

    def __init__(self, k, *a):
        self.k = k
        self.a = list(a)
        self.line = 0
        self.armlines = None
        self.until_line = 0

    def __repr__(self):
        return "%s%r" % (self.k, tuple(self.a))


def N(k, *a):
    return Node(k, *a)


# ---- expression constructors
def Nil(): return N("nil")
def TrueE(): return N("true")
def FalseE(): return N("false")
def Int(z):
    """integer literal; negative values are spelled with unary minus"""
    if z < 0:
        if z == -(1 << 63):
            return N("ix", N("var", "math"), N("str", b"mininteger"))
        return N("un", "neg", N("int", -z))
    return N("int", z)
def Flt(x):
    """float literal from a python float (finite, non-negative sign handled by unary minus)"""
    bits = struct.unpack("<Q", struct.pack("<d", x))[0]
    if bits >> 63:
        return N("un", "neg", N("flt", bits & ((1 << 63) - 1)))
    return N("flt", bits)
def Str(b):
    if isinstance(b, str):
        b = b.encode("latin1")
    return N("str", b)
def Dots(): return N("dots")
def Var(x): return N("var", x)
def Ix(e, k): return N("ix", e, k)
def Fld(e, name): return N("ix", e, Str(name))
def Call(f, *args): return N("call", f, list(args))
def Meth(o, m, *args): return N("meth", o, m, list(args))
def Fn(params, va, body): return N("fn", list(params), bool(va), body)
def Bin(op, a, b): return N("bin", op, a, b)
def And(a, b): return N("and", a, b)
def Or(a, b): return N("or", a, b)
def Un(op, a): return N("un", op, a)
def Par(e): return N("par", e)
def Tab(*fields): return N("tab", list(fields))
def FPos(e): return ("p", e)
def FNamed(k, e): return ("n", k, e)
def FKey(k, e): return ("k", k, e)


# ---- statement constructors
def Local(names, es, attribs=None):
    attribs = attribs or ["-"] * len(names)
    return N("local", list(zip(names, attribs)), list(es))
def Assign(lhs, es): return N("assign", list(lhs), list(es))
def SCall(e): return N("scall", e)
def Do(b): return N("do", b)
def While(c, b): return N("while", c, b)
def Repeat(b, c): return N("repeat", b, c)
def If(arms, els=None): return N("if", list(arms), els)
def For(x, e1, e2, e3, b): return N("for", x, e1, e2, e3, b)
def ForIn(xs, es, b): return N("forin", list(xs), list(es), b)
def Goto(l): return N("goto", l)
def Label(l): return N("label", l)
def Break(): return N("break")
def Return(*es): return N("return", list(es))
def LocalFn(f, fn): return N("localfn", f, fn)
def FunStat(path, meth, fn):
    """function a.b.c:m(...) ... end  ==  a.b.c.m = function(self, ...) ... end"""
    return N("funstat", list(path), meth, fn)


BINOPS = {
    "or": (1, 1, "or"), "and": (2, 2, "and"),
    "lt": (3, 3, "<"), "gt": (3, 3, ">"), "le": (3, 3, "<="), "ge": (3, 3, ">="), "ne": (3, 3, "~="), "eq": (3, 3, "=="),
    "bor": (4, 4, "|"), "bxor": (5, 5, "~"), "band": (6, 6, "&"), "shl": (7, 7, "<<"), "shr": (7, 7, ">>"),
    "concat": (9, 8, ".."), "add": (10, 10, "+"), "sub": (10, 10, "-"),
    "mul": (11, 11, "*"), "div": (11, 11, "/"), "idiv": (11, 11, "//"), "mod": (11, 11, "%"),
    "pow": (14, 13, "^"),
}
UNARY_PRIORITY = 12
UNOPS = {"neg": "-", "not": "not ", "len": "#", "bnot": "~"}


# =====================================================================================
# Renderer
# =====================================================================================
class Renderer:
    """style keys: parens (0..3: frequency of redundant parentheses), hexints, strq
    ('d' double quotes, 's' single quotes + hex escapes, 'mix' incl. long brackets),
    sugar (f"str", f{tab}, t["k"] spellings, `;` field separators, function statements),
    compact (several statements per line), comments, semis, blank, longflt."""

    def __init__(self, style, rng):
        self.st = style
        self.rng = rng
        self.marks = []

    def mark(self, node, attr, idx=None):
        self.marks.append((node, attr, idx))
        return "\x00%d\x00" % (len(self.marks) - 1)

    def nl(self, ind):
        if self.st.get("compact") and self.rng.chance(2, 3):
            return " "
        r = "\n"
        if self.st.get("blank") and self.rng.chance(1, 5):
            r += "\n"
        if self.st.get("comments") and self.rng.chance(1, 6):
            r += self.rng.choice(["-- c\n", "--[[ block\n comment ]]\n", "--[==[ x ]==]\n", "--\n"])
        return r + ("" if self.st.get("compact") else "  " * ind)

    # -------------------------------------------------------------- literals
    def str_lit(self, b):
        mode = self.st.get("strq", "d")
        if mode == "mix":
            mode = self.rng.choice(["d", "s", "l", "x"])
        printable = all(32 <= c < 127 for c in b)
        if mode == "l" and printable and b and b"]" not in b:
            eq = "=" * self.rng.below(3)
            return "[%s[%s]%s]" % (eq, b.decode("latin1"), eq)
        q = "'" if mode == "s" else '"'
        r = [q]
        for i, c in enumerate(b):
            ch = chr(c)
            if ch == q or ch == "\\":
                r.append("\\" + ch)
            elif c == 10:
                r.append("\\n")
            elif 32 <= c < 127 and not (mode == "x" and self.rng.chance(1, 3)):
                r.append(ch)
            elif mode in ("x", "s"):
                r.append("\\x%02x" % c)
            else:
                nxt = b[i + 1] if i + 1 < len(b) else 0
                r.append("\\%03d" % c if (48 <= nxt <= 57 or self.rng.chance(1, 2)) else "\\%d" % c)
        r.append(q)
        return "".join(r)

    def int_lit(self, z):
        if self.st.get("hexints") and self.rng.chance(1, 2):
            return ("0x%x" if self.rng.chance(1, 2) else "0X%X") % z
        return "%d" % z

    def flt_lit(self, bits):
        x = struct.unpack("<d", struct.pack("<Q", bits))[0]
        if x != x or x in (float("inf"), float("-inf")):
            raise ValueError("no literal for inf/nan")
        s = repr(x) if not self.st.get("longflt") else "%.17g" % x
        if not any(ch in s for ch in ".en"):
            s += ".0"
        return s

    # -------------------------------------------------------------- expressions
    def prefix(self, e, ind):
        if e.k in ("var", "ix", "call", "meth", "par"):
            return self.exp(e, 0, ind)
        return "(" + self.exp(e, 0, ind) + ")"

    def args(self, es, ind):
        if self.st.get("sugar") and len(es) == 1 and es[0].k == "str" and self.rng.chance(1, 2):
            return " " + self.str_lit(es[0].a[0])
        if self.st.get("sugar") and len(es) == 1 and es[0].k == "tab" and self.rng.chance(1, 2):
            return self.exp(es[0], 0, ind)
        sep = "," if self.st.get("compact") else ", "
        return "(" + sep.join(self.exp(x, 0, ind, single=(i < len(es) - 1)) for i, x in enumerate(es)) + ")"

    def exp(self, e, prec, ind, single=False):
        """single: the position keeps one value only, so redundant parentheses are harmless"""
        k = e.k
        p = self.st.get("parens", 0)
        if k == "nil": return "nil"
        if k == "true": return "true"
        if k == "false": return "false"
        if k == "int": return self.int_lit(e.a[0])
        if k == "flt": return self.flt_lit(e.a[0])
        if k == "str": return self.str_lit(e.a[0])
        if k == "dots": return "..."
        if k == "var":
            if single and p > 1 and self.rng.chance(1, 6):
                return "(" + e.a[0] + ")"
            return e.a[0]
        if k == "par": return "(" + self.exp(e.a[0], 0, ind) + ")"
        if k == "ix":
            base, key = e.a
            if key.k == "str" and is_name(key.a[0]) and not (self.st.get("sugar") and self.rng.chance(1, 3)):
                return self.prefix(base, ind) + "." + key.a[0].decode()
            return self.prefix(base, ind) + "[ " + self.exp(key, 0, ind, True) + " ]"
        if k == "call":
            return self.prefix(e.a[0], ind) + self.args(e.a[1], ind)
        if k == "meth":
            return self.prefix(e.a[0], ind) + ":" + e.a[1] + self.args(e.a[2], ind)
        if k == "fn":
            return self.fn_text(e, "function", ind)
        if k == "tab":
            parts = []
            n = len(e.a[0])
            for i, f in enumerate(e.a[0]):
                if f[0] == "p":
                    parts.append(self.exp(f[1], 0, ind, single=(i < n - 1)))
                elif f[0] == "n":
                    parts.append("%s = %s" % (f[1], self.exp(f[2], 0, ind, True)))
                else:
                    parts.append("[ %s ] = %s" % (self.exp(f[1], 0, ind, True), self.exp(f[2], 0, ind, True)))
            sep = self.rng.choice([", ", "; "]) if self.st.get("sugar") else ", "
            trail = sep.strip() if (parts and self.st.get("sugar") and self.rng.chance(1, 4)) else ""
            return "{" + sep.join(parts) + trail + "}"
        if k in ("bin", "and", "or"):
            if k == "bin":
                op, a, b = e.a
            else:
                op, (a, b) = k, e.a
            lp, rp, sym = BINOPS[op]
            # Lua's operator-precedence parser: the left operand is parsed with limit lp-? ; we
            # parenthesise a child whenever its own priority is not strictly higher, except
            # for the associativity side
            sa = self.exp(a, lp if lp <= rp else lp - 1, ind, True) if False else self.exp(a, self._lim_left(op), ind, True)
            sb = self.exp(b, self._lim_right(op), ind, True)
            s = "%s %s %s" % (sa, sym, sb)
            if lp <= prec or (p and single and self.rng.chance(p, 6)):
                return "(" + s + ")"
            return s
        if k == "un":
            op, a = e.a
            sa = self.exp(a, UNARY_PRIORITY - 1, ind, True)
            sym = UNOPS[op]
            if sym in ("-", "~") and sa[:1] in ("-", "~"):
                sa = " " + sa
            s = sym + sa
            if UNARY_PRIORITY <= prec or (p and single and self.rng.chance(p, 8)):
                return "(" + s + ")"
            return s
        raise ValueError("exp kind " + k)

    # a child expression with (left) priority q is parenthesised iff q <= limit.
    # For a left-associative operator of priority P: left child limit P-1 (same priority
    # may stay), right child limit P.  For right-associative (.. and ^): left limit P,
    # right limit P-1.  Unary operators have priority 12, so `-x^2` is -(x^2) and
    # `(-x)^2` needs parentheses: the left operand of ^ gets limit 14 >= 12.
    def _lim_left(self, op):
        lp, rp, _ = BINOPS[op]
        return lp - 1 if lp <= rp else lp
    def _lim_right(self, op):
        lp, rp, _ = BINOPS[op]
        return lp if lp <= rp else lp - 1

    def fn_text(self, e, head, ind, skip_self=False):
        params, va, body = e.a
        ps = list(params[1:] if skip_self else params) + (["..."] if va else [])
        return "%s(%s)" % (head, ", ".join(ps)) + self.block(body, ind + 1) + self.nl(ind) + "end"

    # -------------------------------------------------------------- statements
    def block(self, b, ind):
        return "".join(self.nl(ind) + self.stat(s, ind) for s in b)

    def explist(self, es, ind, single_last=False):
        return ", ".join(self.exp(x, 0, ind, single=(i < len(es) - 1) or single_last) for i, x in enumerate(es))

    def stat(self, s, ind):
        k = s.k
        semi = ";" if (self.st.get("semis") and self.rng.chance(1, 3)) else ""
        m = self.mark(s, "line")
        if k == "local":
            names = ", ".join(n + ("" if a == "-" else " <%s>" % a) for n, a in s.a[0])
            t = "local " + names
            if s.a[1]:
                t += " = " + self.explist(s.a[1], ind)
        elif k == "assign":
            t = ", ".join(self.exp(x, 0, ind) for x in s.a[0]) + " = " + self.explist(s.a[1], ind)
        elif k == "scall":
            t = self.exp(s.a[0], 0, ind)
        elif k == "do":
            t = "do" + self.block(s.a[0], ind + 1) + self.nl(ind) + "end"
        elif k == "while":
            t = "while " + self.exp(s.a[0], 0, ind, True) + " do" + self.block(s.a[1], ind + 1) + self.nl(ind) + "end"
        elif k == "repeat":
            t = ("repeat" + self.block(s.a[0], ind + 1) + self.nl(ind) + self.mark(s, "until_line") + "until "
                 + self.exp(s.a[1], 0, ind, True))
        elif k == "if":
            s.armlines = [0] * len(s.a[0])
            t = ""
            for i, (c, b) in enumerate(s.a[0]):
                if i:
                    t += self.nl(ind)
                t += self.mark(s, "armlines", i) + ("if " if i == 0 else "elseif ") + self.exp(c, 0, ind, True) + " then"
                t += self.block(b, ind + 1)
            if s.a[1] is not None:
                t += self.nl(ind) + "else" + self.block(s.a[1], ind + 1)
            t += self.nl(ind) + "end"
        elif k == "for":
            x, e1, e2, e3, b = s.a
            t = "for %s = %s, %s" % (x, self.exp(e1, 0, ind, True), self.exp(e2, 0, ind, True))
            if e3 is not None:
                t += ", " + self.exp(e3, 0, ind, True)
            t += " do" + self.block(b, ind + 1) + self.nl(ind) + "end"
        elif k == "forin":
            xs, es, b = s.a
            t = "for %s in %s do" % (", ".join(xs), self.explist(es, ind)) + self.block(b, ind + 1) + self.nl(ind) + "end"
        elif k == "goto":
            t = "goto " + s.a[0]
        elif k == "label":
            t = "::" + s.a[0] + "::"
        elif k == "break":
            t = "break"
        elif k == "return":
            t = "return" + ((" " + self.explist(s.a[0], ind)) if s.a[0] else "")
        elif k == "localfn":
            t = self.fn_text(s.a[1], "local function " + s.a[0], ind)
        elif k == "funstat":
            path, meth, fn = s.a
            if self.st.get("sugar", True) or meth:
                t = self.fn_text(fn, "function " + ".".join(path) + ((":" + meth) if meth else ""), ind, skip_self=bool(meth))
            else:
                t = ".".join(path) + " = " + self.exp(fn, 0, ind)
        else:
            raise ValueError("stat kind " + k)
        if t.startswith("("):
            t = ";" + t
        return m + t + semi

    def render(self, block):
        self.marks = []
        text = self.block(block, 0).lstrip("\n ") if False else self.block(block, 0)
        text += "\n"
        out = []
        line = 1
        parts = text.split("\x00")
        # parts alternate: text, mark index, text, mark index, ...
        for i, p in enumerate(parts):
            if i % 2 == 0:
                out.append(p)
                line += p.count("\n")
            else:
                node, attr, idx = self.marks[int(p)]
                if idx is None:
                    setattr(node, attr, line)
                else:
                    getattr(node, attr)[idx] = line
        return "".join(out)


def is_name(b):
    try:
        s = b.decode("ascii")
    except UnicodeDecodeError:
        return False
    if not s or not (s[0].isalpha() or s[0] == "_"):
        return False
    if not all(c.isalnum() or c == "_" for c in s):
        return False
    return s not in KEYWORDS


KEYWORDS = {"and", "break", "do", "else", "elseif", "end", "false", "for", "function", "goto", "if", "in", "local",
            "nil", "not", "or", "repeat", "return", "then", "true", "until", "while"}

STYLES = [
    {"name": "plain"},
    {"name": "parens", "parens": 3, "hexints": True, "strq": "mix", "comments": True, "blank": True, "longflt": True},
    {"name": "compact", "compact": True, "semis": True, "parens": 1, "strq": "s", "sugar": True},
    {"name": "sugar", "sugar": True, "parens": 2, "strq": "mix", "semis": True, "comments": True},
]


def render(block, style, rng):
    """Lua source for the block; sets .line/.armlines/.until_line on the statements"""
    if isinstance(style, int):
        style = STYLES[style % len(STYLES)]
    return Renderer(style, rng).render(block)


# =====================================================================================
# Serialiser (S-expression for oracle/luacore; see oracle/luacore/driver.ml)
# =====================================================================================
def hx(b):
    if isinstance(b, str):
        b = b.encode("latin1")
    return b.hex() if b else "-"


def zh(z):
    return ("-%x" % -z) if z < 0 else ("%x" % z)


def ser_exp(e):
    k = e.k
    if k in ("nil", "true", "false"):
        return k
    if k == "dots":
        return "..."
    if k == "int":
        return "(i %s)" % zh(e.a[0])
    if k == "flt":
        return "(f %x)" % e.a[0]
    if k == "str":
        return "(s %s)" % hx(e.a[0])
    if k == "var":
        return "(v %s)" % hx(e.a[0])
    if k == "ix":
        return "(ix %s %s)" % (ser_exp(e.a[0]), ser_exp(e.a[1]))
    if k == "call":
        return "(call %s)" % " ".join([ser_exp(e.a[0])] + [ser_exp(x) for x in e.a[1]])
    if k == "meth":
        return "(meth %s %s)" % (ser_exp(e.a[0]), " ".join([hx(e.a[1])] + [ser_exp(x) for x in e.a[2]]))
    if k == "fn":
        return "(fn (%s) %d %s)" % (" ".join(hx(p) for p in e.a[0]), 1 if e.a[1] else 0, ser_block(e.a[2]))
    if k == "bin":
        return "(bin %s %s %s)" % (e.a[0], ser_exp(e.a[1]), ser_exp(e.a[2]))
    if k in ("and", "or"):
        return "(%s %s %s)" % (k, ser_exp(e.a[0]), ser_exp(e.a[1]))
    if k == "un":
        return "(un %s %s)" % (e.a[0], ser_exp(e.a[1]))
    if k == "par":
        return "(par %s)" % ser_exp(e.a[0])
    if k == "tab":
        fs = []
        for f in e.a[0]:
            if f[0] == "p":
                fs.append("(p %s)" % ser_exp(f[1]))
            elif f[0] == "n":
                fs.append("(n %s %s)" % (hx(f[1]), ser_exp(f[2])))
            else:
                fs.append("(k %s %s)" % (ser_exp(f[1]), ser_exp(f[2])))
        return "(tab %s)" % " ".join(fs) if fs else "(tab)"
    raise ValueError("ser_exp " + k)


def ser_stat(s):
    k = s.k
    if k == "local":
        return "(local (%s) (%s))" % (" ".join("(%s %s)" % (hx(n), a) for n, a in s.a[0]),
                                      " ".join(ser_exp(x) for x in s.a[1]))
    if k == "assign":
        return "(assign (%s) (%s))" % (" ".join(ser_exp(x) for x in s.a[0]), " ".join(ser_exp(x) for x in s.a[1]))
    if k == "scall":
        return "(scall %s)" % ser_exp(s.a[0])
    if k == "do":
        return "(do %s)" % ser_block(s.a[0])
    if k == "while":
        return "(while %s %s)" % (ser_exp(s.a[0]), ser_block(s.a[1]))
    if k == "repeat":
        return "(repeat %s %x %s)" % (ser_block(s.a[0]), s.until_line, ser_exp(s.a[1]))
    if k == "if":
        arms = " ".join("(%x %s %s)" % (s.armlines[i] if s.armlines else 0, ser_exp(c), ser_block(b))
                        for i, (c, b) in enumerate(s.a[0]))
        return "(if (%s) %s)" % (arms, ser_block(s.a[1] or []))
    if k == "for":
        x, e1, e2, e3, b = s.a
        return "(for %s %s %s %s %s)" % (hx(x), ser_exp(e1), ser_exp(e2), ser_exp(e3) if e3 is not None else "(i 1)",
                                         ser_block(b))
    if k == "forin":
        return "(forin (%s) (%s) %s)" % (" ".join(hx(x) for x in s.a[0]), " ".join(ser_exp(x) for x in s.a[1]),
                                         ser_block(s.a[2]))
    if k == "goto":
        return "(goto %s)" % hx(s.a[0])
    if k == "label":
        return "(label %s)" % hx(s.a[0])
    if k == "break":
        return "(break)"
    if k == "return":
        return "(return %s)" % " ".join(ser_exp(x) for x in s.a[0]) if s.a[0] else "(return)"
    if k == "localfn":
        return "(localfn %s %s)" % (hx(s.a[0]), ser_exp(s.a[1]))
    if k == "funstat":
        # manual 3.4.11: function t.a.b:m(ps) body end  ==  t.a.b.m = function(self, ps) body end
        path, meth, fn = s.a
        tgt = Var(path[0])
        for p in path[1:]:
            tgt = Fld(tgt, p)
        if meth:
            tgt = Fld(tgt, meth)
        return "(assign (%s) (%s))" % (ser_exp(tgt), ser_exp(fn))
    raise ValueError("ser_stat " + k)


def ser_block(b):
    return "(%s)" % " ".join("(%x %s)" % (s.line, ser_stat(s)) for s in b)


def serialize(block):
    return ser_block(block)
