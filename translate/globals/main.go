// translate/globals — regenerates coq/theories/Iso/Generated.v from /repo's source.
//
//	shared_writes : for every package-level variable of the golua module's packages in the
//	                import closure of ./lib/... and ./runtime/... (non-test, default tags),
//	                and for the process-global state of the Go standard library that module
//	                code mutates through a curated list of APIs (math/rand's global source,
//	                runtime/debug GC settings, environment, working directory, log's
//	                default logger), the functions OUTSIDE package initialisers that write
//	                it: a store to the variable, a store / map update / delete / copy through
//	                a pointer, slice or map held in it, or passing (something reachable from)
//	                it to a function that writes through that parameter (summaries computed
//	                to a fixpoint over static calls; sync/atomic and bodiless functions are
//	                assumed to write through pointer arguments).
//
// usage: globals -repo /repo -out Generated.v -json diag.json -allow allow.txt [-known var,var]
package main

import (
	"bufio"
	"encoding/json"
	"flag"
	"fmt"
	"go/token"
	"go/types"
	"os"
	"sort"
	"strings"
	"time"

	"golang.org/x/tools/go/packages"
	"golang.org/x/tools/go/ssa"

	"gvtranslate/tx"
)

// A region of memory a pointer-like value may point into.
//
//	g != nil          : the package-level variable g or anything reachable from it
//	a != nil          : the storage of a local variable (writes into it are harmless)
//	otherwise (p, d)  : memory reachable from parameter p; d = 1 the direct pointee, d = 2 deeper
type base struct {
	g *ssa.Global
	a *ssa.Alloc
	p int
	d int
}

type summary struct {
	wt1 map[int]bool          // parameters whose direct pointee is written
	wt2 map[int]bool          // parameters written at depth >= 2
	esc map[int]bool          // pointer parameters handed to code we cannot see (dynamic call, closure, heap)
	ret map[int]map[base]bool // per result index: what it may point into (globals / parameters)
	wr  map[string]string     // global name -> how (first reason found)
}

var (
	sums    = map[*ssa.Function]*summary{}
	changed bool
)

func sum(fn *ssa.Function) *summary {
	s := sums[fn]
	if s == nil {
		s = &summary{wt1: map[int]bool{}, wt2: map[int]bool{}, esc: map[int]bool{}, ret: map[int]map[base]bool{}, wr: map[string]string{}}
		sums[fn] = s
	}
	return s
}

func pointerLike(t types.Type) bool {
	switch u := t.Underlying().(type) {
	case *types.Pointer, *types.Slice, *types.Map, *types.Chan, *types.Interface, *types.Signature:
		return true
	case *types.Struct:
		for i := 0; i < u.NumFields(); i++ {
			if pointerLike(u.Field(i).Type()) {
				return true
			}
		}
	case *types.Array:
		return pointerLike(u.Elem())
	case *types.Tuple:
		for i := 0; i < u.Len(); i++ {
			if pointerLike(u.At(i).Type()) {
				return true
			}
		}
	}
	return false
}

type analysis struct {
	fn     *ssa.Function
	params map[*ssa.Parameter]int
	memoV  map[ssa.Value]map[base]bool
	busy   map[ssa.Value]bool
	stores map[*ssa.Alloc][]ssa.Value // values stored into local memory rooted at the alloc
}

func rootAlloc(addr ssa.Value) *ssa.Alloc {
	for {
		switch x := addr.(type) {
		case *ssa.Alloc:
			return x
		case *ssa.FieldAddr:
			addr = x.X
		case *ssa.IndexAddr:
			addr = x.X
		default:
			return nil
		}
	}
}

func newAnalysis(fn *ssa.Function) *analysis {
	a := &analysis{fn: fn, params: map[*ssa.Parameter]int{}, memoV: map[ssa.Value]map[base]bool{}, busy: map[ssa.Value]bool{},
		stores: map[*ssa.Alloc][]ssa.Value{}}
	for i, p := range fn.Params {
		a.params[p] = i
	}
	for _, b := range fn.Blocks {
		for _, ins := range b.Instrs {
			if st, ok := ins.(*ssa.Store); ok {
				if al := rootAlloc(st.Addr); al != nil {
					a.stores[al] = append(a.stores[al], st.Val)
				}
			}
		}
	}
	return a
}

func union(dst, src map[base]bool) {
	for k := range src {
		dst[k] = true
	}
}

// deref: regions of the pointer-like values stored in the given regions.
func (a *analysis) deref(bs map[base]bool) map[base]bool {
	out := map[base]bool{}
	for b := range bs {
		switch {
		case b.g != nil:
			out[base{g: b.g, d: 1}] = true
		case b.a != nil:
			for _, sv := range a.stores[b.a] {
				union(out, a.valBase(sv))
			}
		default:
			out[base{p: b.p, d: 2}] = true
		}
	}
	return out
}

func (a *analysis) callRet(x *ssa.Call, idx int) map[base]bool {
	out := map[base]bool{}
	cal := x.Common().StaticCallee()
	if cal == nil {
		return out
	}
	args := x.Common().Args
	for b := range sum(cal).ret[idx] {
		if b.g != nil {
			out[b] = true
		} else if b.a == nil && b.p < len(args) {
			if b.d <= 1 {
				union(out, a.valBase(args[b.p]))
			} else {
				union(out, a.deref(a.valBase(args[b.p])))
			}
		}
	}
	return out
}

// valBase: which regions a pointer-like value (or an address) may point into.
func (a *analysis) valBase(v ssa.Value) map[base]bool {
	if v == nil {
		return nil
	}
	if m, ok := a.memoV[v]; ok {
		return m
	}
	if a.busy[v] {
		return nil
	}
	a.busy[v] = true
	out := map[base]bool{}
	switch x := v.(type) {
	case *ssa.Global:
		out[base{g: x}] = true
	case *ssa.Parameter:
		if pointerLike(x.Type()) {
			out[base{p: a.params[x], d: 1}] = true
		}
	case *ssa.Alloc:
		out[base{a: x}] = true
	case *ssa.UnOp:
		if x.Op == token.MUL && pointerLike(x.Type()) {
			union(out, a.deref(a.valBase(x.X)))
		}
	case *ssa.FieldAddr:
		union(out, a.valBase(x.X))
	case *ssa.IndexAddr:
		union(out, a.valBase(x.X))
	case *ssa.Slice:
		union(out, a.valBase(x.X))
	case *ssa.Phi:
		for _, e := range x.Edges {
			union(out, a.valBase(e))
		}
	case *ssa.ChangeType:
		union(out, a.valBase(x.X))
	case *ssa.Convert:
		if pointerLike(x.Type()) {
			union(out, a.valBase(x.X))
		}
	case *ssa.ChangeInterface:
		union(out, a.valBase(x.X))
	case *ssa.MakeInterface:
		union(out, a.valBase(x.X))
	case *ssa.TypeAssert:
		union(out, a.valBase(x.X))
	case *ssa.Extract:
		if c, ok := x.Tuple.(*ssa.Call); ok {
			union(out, a.callRet(c, x.Index))
		} else {
			union(out, a.valBase(x.Tuple))
		}
	case *ssa.Field:
		if pointerLike(x.Type()) {
			union(out, a.valBase(x.X))
		}
	case *ssa.Index:
		if pointerLike(x.Type()) {
			union(out, a.valBase(x.X))
		}
	case *ssa.Lookup:
		if pointerLike(x.Type()) {
			union(out, a.deref(a.valBase(x.X)))
		}
	case *ssa.Call:
		if pointerLike(x.Type()) {
			union(out, a.callRet(x, 0))
		}
	}
	delete(a.busy, v)
	a.memoV[v] = out
	return out
}

func gname(g *ssa.Global) string {
	p := g.Pkg.Pkg.Path()
	p = strings.TrimPrefix(strings.TrimPrefix(p, tx.Module), "/")
	if p == "" {
		p = "."
	}
	return p + "." + g.Name()
}

// stdlib APIs that mutate process-global state: callee (ssa String) -> pseudo variable
func externalState(cal *ssa.Function) string {
	if cal == nil || cal.Signature.Recv() != nil {
		return ""
	}
	p := tx.FnPkgPath(cal)
	n := cal.Name()
	switch p {
	case "math/rand", "math/rand/v2":
		if strings.HasPrefix(n, "New") {
			return ""
		}
		return p + ".globalRand"
	case "runtime/debug":
		if strings.HasPrefix(n, "Set") {
			return "runtime/debug." + n[3:]
		}
	case "runtime":
		if n == "GOMAXPROCS" || n == "SetFinalizer" && false {
			return "runtime.gomaxprocs"
		}
	case "os":
		switch n {
		case "Setenv", "Unsetenv", "Clearenv":
			return "os.environ"
		case "Chdir":
			return "os.cwd"
		}
	case "log":
		if strings.HasPrefix(n, "Set") {
			return "log.std"
		}
	case "os/signal":
		if n == "Notify" || n == "Ignore" || n == "Reset" || n == "Stop" {
			return "os/signal.handlers"
		}
	}
	return ""
}

func analyse(fn *ssa.Function) {
	if len(fn.Blocks) == 0 {
		return
	}
	a := newAnalysis(fn)
	s := sum(fn)
	note := func(bs map[base]bool, how string) {
		for b := range bs {
			switch {
			case b.g != nil:
				n := gname(b.g)
				if _, ok := s.wr[n]; !ok {
					s.wr[n] = how
					changed = true
				}
			case b.a != nil:
			case b.d <= 1:
				if !s.wt1[b.p] {
					s.wt1[b.p] = true
					changed = true
				}
			default:
				if !s.wt2[b.p] {
					s.wt2[b.p] = true
					changed = true
				}
			}
		}
	}
	// escape: the ADDRESS of a package-level variable (or a pointer parameter) is handed to code the
	// analysis cannot see; reported as a potential writer of the variable
	escape := func(v ssa.Value, how string) {
		for b := range a.valBase(v) {
			switch {
			case b.g != nil && b.d == 0:
				n := gname(b.g)
				if _, ok := s.wr[n]; !ok {
					s.wr[n] = "address escapes: " + how
					changed = true
				}
			case b.g == nil && b.a == nil && b.d <= 1:
				if !s.esc[b.p] {
					s.esc[b.p] = true
					changed = true
				}
			}
		}
	}
	// handOut: a shared mutable Lua object (see luaShared) leaves the package: argument of a call, stored in
	// non-local memory, returned
	handOut := func(v ssa.Value, how string) {
		if len(luaShared) == 0 || isInit(fn) || !tx.InModule(fn) {
			return
		}
		for b := range a.valBase(v) {
			if b.g != nil && b.d == 1 {
				if why, ok := luaShared[b.g]; ok {
					n := gname(b.g)
					if _, done := s.wr[n]; !done {
						s.wr[n] = "shared mutable Lua object (" + why + ") handed to a runtime: " + how
						changed = true
					}
				}
			}
		}
	}
	for _, bl := range fn.Blocks {
		for _, ins := range bl.Instrs {
			if ci, ok := ins.(ssa.CallInstruction); ok {
				for _, arg := range ci.Common().Args {
					handOut(arg, "passed to "+ci.Common().String())
				}
			}
			switch x := ins.(type) {
			case *ssa.Return:
				for _, r := range x.Results {
					handOut(r, "returned")
				}
			}
			switch x := ins.(type) {
			case *ssa.MakeClosure:
				for _, bv := range x.Bindings {
					escape(bv, "captured by a closure")
				}
			case *ssa.Store:
				if rootAlloc(x.Addr) == nil {
					escape(x.Val, "stored in non-local memory")
					if _, isG := x.Addr.(*ssa.Global); !isG {
						handOut(x.Val, "stored in non-local memory")
					}
				}
				if _, ok := x.Addr.(*ssa.Global); ok {
					note(a.valBase(x.Addr), "store")
				} else {
					note(a.valBase(x.Addr), "store through")
				}
			case *ssa.MapUpdate:
				note(a.valBase(x.Map), "map update")
			case *ssa.Send:
				note(a.valBase(x.Chan), "channel send")
				escape(x.X, "sent on a channel")
			case *ssa.Return:
				for ri, r := range x.Results {
					if pointerLike(r.Type()) {
						for b := range a.valBase(r) {
							if b.a != nil {
								continue
							}
							if s.ret[ri] == nil {
								s.ret[ri] = map[base]bool{}
							}
							if !s.ret[ri][b] {
								s.ret[ri][b] = true
								changed = true
							}
						}
					}
				}
			}
			ci, ok := ins.(ssa.CallInstruction)
			if !ok {
				continue
			}
			c := ci.Common()
			if bi, ok := c.Value.(*ssa.Builtin); ok {
				switch bi.Name() {
				case "delete", "copy", "clear":
					note(a.valBase(c.Args[0]), "builtin "+bi.Name())
				}
				continue
			}
			if c.IsInvoke() || (c.StaticCallee() == nil) {
				for _, arg := range c.Args {
					escape(arg, "passed to a dynamic call")
				}
			}
			if c.IsInvoke() {
				// interface method call: every method of a module type implementing the interface (CHA on module types)
				args := append([]ssa.Value{c.Value}, c.Args...)
				for _, cal := range invokeTargets(c) {
					cs := sum(cal)
					for i, arg := range args {
						if cs.wt1[i] {
							note(a.valBase(arg), "via (interface) "+cal.String())
						}
						if cs.wt2[i] {
							note(a.deref(a.valBase(arg)), "via (interface) "+cal.String())
						}
					}
				}
				continue
			}
			cal := c.StaticCallee()
			if cal == nil {
				continue
			}
			if ext := externalState(cal); ext != "" && tx.InModule(fn) {
				if _, ok := s.wr[ext]; !ok {
					s.wr[ext] = "call " + cal.String()
					changed = true
				}
			}
			var wt1, wt2 map[int]bool
			if len(cal.Blocks) == 0 {
				// no body (assembly, linkname): assume the pointee of the first argument is written for sync/atomic
				if p := tx.FnPkgPath(cal); p == "sync/atomic" || p == "internal/runtime/atomic" {
					if !strings.HasPrefix(cal.Name(), "Load") {
						wt1 = map[int]bool{0: true}
					}
				}
			} else {
				wt1, wt2 = sum(cal).wt1, sum(cal).wt2
			}
			for i, arg := range c.Args {
				if len(cal.Blocks) > 0 && sum(cal).esc[i] {
					escape(arg, "through "+cal.String())
				}
				if wt1[i] {
					note(a.valBase(arg), "via "+cal.String())
				}
				if wt2[i] {
					note(a.deref(a.valBase(arg)), "via "+cal.String())
				}
			}
		}
	}
}

// luaShared: package-level variables that HOLD a mutable Lua object (a *Table, *UserData, *Thread, *Closure, *Runtime,
// directly or inside a struct/slice/map/array, or a runtime.Value assigned from TableValue/UserDataValue/...).  Such an
// object is created once per process; when code outside init hands it to a runtime (as a metatable, registry entry,
// table field, result ...) every runtime's Lua programs can reach and mutate the same object.
var luaShared = map[*ssa.Global]string{}

func mutableLuaType(t types.Type, depth int) bool {
	if depth > 4 {
		return false
	}
	switch u := t.(type) {
	case *types.Pointer:
		if n, ok := u.Elem().(*types.Named); ok && n.Obj().Pkg() != nil && n.Obj().Pkg().Path() == tx.Module+"/runtime" {
			switch n.Obj().Name() {
			case "Table", "UserData", "Thread", "Closure", "Runtime", "LuaCont":
				return true
			}
		}
		return false
	case *types.Named:
		if n := u.Obj(); n.Pkg() != nil && n.Pkg().Path() == tx.Module+"/runtime" && n.Name() == "Value" {
			return false // decided by what is stored in it, see findLuaShared
		}
		return mutableLuaType(u.Underlying(), depth+1)
	case *types.Struct:
		for i := 0; i < u.NumFields(); i++ {
			if mutableLuaType(u.Field(i).Type(), depth+1) {
				return true
			}
		}
	case *types.Slice:
		return mutableLuaType(u.Elem(), depth+1)
	case *types.Array:
		return mutableLuaType(u.Elem(), depth+1)
	case *types.Map:
		return mutableLuaType(u.Elem(), depth+1) || mutableLuaType(u.Key(), depth+1)
	}
	return false
}

func isValueType(t types.Type) bool {
	n, ok := t.(*types.Named)
	return ok && n.Obj().Pkg() != nil && n.Obj().Pkg().Path() == tx.Module+"/runtime" && n.Obj().Name() == "Value"
}

// valueHoldsObject: is the runtime.Value v built from a table / userdata / thread / Lua closure?
func valueHoldsObject(v ssa.Value, depth int) bool {
	if depth > 5 {
		return false
	}
	switch x := v.(type) {
	case *ssa.Call:
		if cal := x.Common().StaticCallee(); cal != nil && tx.FnPkgPath(cal) == tx.Module+"/runtime" {
			switch cal.Name() {
			case "TableValue", "UserDataValue", "ThreadValue", "NewUserDataValue", "ContValue":
				return true
			case "FunctionValue", "AsValue":
				for _, a := range x.Common().Args {
					if mi, ok := a.(*ssa.MakeInterface); ok {
						a = mi.X
					}
					if _, isPtr := a.Type().(*types.Pointer); isPtr && mutableLuaType(a.Type(), 0) {
						return true
					}
				}
			}
		}
	case *ssa.Phi:
		for _, e := range x.Edges {
			if valueHoldsObject(e, depth+1) {
				return true
			}
		}
	case *ssa.Extract:
		return valueHoldsObject(x.Tuple, depth+1)
	}
	return false
}

func findLuaShared(l *tx.Loaded) {
	for fn := range l.Funcs {
		for _, b := range fn.Blocks {
			for _, ins := range b.Instrs {
				st, ok := ins.(*ssa.Store)
				if !ok {
					continue
				}
				g, ok := st.Addr.(*ssa.Global)
				if !ok || g.Pkg == nil || !strings.HasPrefix(g.Pkg.Pkg.Path(), tx.Module) {
					continue
				}
				if isValueType(g.Type().(*types.Pointer).Elem()) && valueHoldsObject(st.Val, 0) {
					luaShared[g] = "a runtime.Value holding a table/userdata/thread"
				}
			}
		}
	}
	// the process's standard streams: package-level variables of package os that every runtime's io library wraps
	for _, sp := range l.Prog.AllPackages() {
		if sp.Pkg.Path() == "os" {
			for _, n := range []string{"Stdin", "Stdout", "Stderr"} {
				if g, ok := sp.Members[n].(*ssa.Global); ok {
					luaShared[g] = "process-wide standard stream *os.File"
				}
			}
		}
	}
	for _, sp := range l.Prog.AllPackages() {
		if !strings.HasPrefix(sp.Pkg.Path(), tx.Module) {
			continue
		}
		for _, m := range sp.Members {
			if g, ok := m.(*ssa.Global); ok && mutableLuaType(g.Type().(*types.Pointer).Elem(), 0) {
				luaShared[g] = "holds a mutable Lua object (" + g.Type().(*types.Pointer).Elem().String() + ")"
			}
		}
	}
}

// methods of module types by name, for interface calls
var methodsByName = map[string][]*ssa.Function{}
var invokeMemo = map[*types.Func][]*ssa.Function{}

func invokeTargets(c *ssa.CallCommon) []*ssa.Function {
	if r, ok := invokeMemo[c.Method]; ok {
		return r
	}
	var out []*ssa.Function
	iface, _ := c.Value.Type().Underlying().(*types.Interface)
	if iface != nil {
		for _, m := range methodsByName[c.Method.Name()] {
			rt := m.Signature.Recv().Type()
			if types.Implements(rt, iface) {
				out = append(out, m)
			} else if _, isPtr := rt.(*types.Pointer); !isPtr && types.Implements(types.NewPointer(rt), iface) {
				out = append(out, m)
			}
		}
	}
	invokeMemo[c.Method] = out
	return out
}

// osFileCloseCallers: module functions (outside init) that call (*os.File).Close — the only operation on a wrapped
// standard stream that would affect other runtimes; compared with translate/globals/close_callers.txt by the check.
func osFileCloseCallers(fns []*ssa.Function) []string {
	set := map[string]bool{}
	for _, fn := range fns {
		if !tx.InModule(fn) || isInit(fn) {
			continue
		}
		for _, b := range fn.Blocks {
			for _, ins := range b.Instrs {
				if ci, ok := ins.(ssa.CallInstruction); ok {
					if cal := ci.Common().StaticCallee(); cal != nil && cal.String() == "(*os.File).Close" {
						set[fn.String()] = true
					}
				}
			}
		}
	}
	out := []string{}
	for k := range set {
		out = append(out, k)
	}
	sort.Strings(out)
	return out
}

func pos2(l *tx.Loaded, p token.Pos) string {
	q := l.Prog.Fset.Position(p)
	f := q.Filename
	if i := strings.Index(f, "/repo/"); i >= 0 {
		f = f[i+6:]
	}
	return fmt.Sprintf("%s:%d", f, q.Line)
}

func luaSharedNames() []string {
	out := []string{}
	for g := range luaShared {
		out = append(out, gname(g))
	}
	sort.Strings(out)
	return out
}

func isInit(fn *ssa.Function) bool {
	for fn.Parent() != nil {
		fn = fn.Parent()
	}
	n := fn.Name()
	return n == "init" || strings.HasPrefix(n, "init#")
}

func readAllow(path string) (map[string]string, error) {
	out := map[string]string{}
	if path == "" {
		return out, nil
	}
	f, err := os.Open(path)
	if err != nil {
		return nil, err
	}
	defer f.Close()
	sc := bufio.NewScanner(f)
	ln := 0
	for sc.Scan() {
		ln++
		line := strings.TrimSpace(sc.Text())
		if line == "" || strings.HasPrefix(line, "#") {
			continue
		}
		i := strings.Index(line, " # ")
		if i < 0 || strings.TrimSpace(line[i+3:]) == "" {
			return nil, fmt.Errorf("%s:%d: entry without justification", path, ln)
		}
		out[strings.TrimSpace(line[:i])] = strings.TrimSpace(line[i+3:])
	}
	return out, nil
}

func main() {
	repo := flag.String("repo", "/repo", "golua checkout")
	out := flag.String("out", "", "Generated.v to write")
	jout := flag.String("json", "", "diagnosis JSON")
	allowPath := flag.String("allow", "", "allow list: <variable> # justification")
	known := flag.String("known", "", "comma separated variables recorded as known findings")
	flag.Parse()
	t0 := time.Now()
	l, err := tx.Load(*repo, "./lib/...", "./runtime/...")
	if err != nil {
		fmt.Fprintln(os.Stderr, "load:", err)
		os.Exit(2)
	}
	tLoad := time.Since(t0)
	allow, err := readAllow(*allowPath)
	if err != nil {
		fmt.Fprintln(os.Stderr, "allow:", err)
		os.Exit(2)
	}
	fns := l.SortedFuncs()
	findLuaShared(l)
	// worklist fixpoint: re-analyse a function only when the summary of a static callee changed
	for _, fn := range fns {
		if fn.Signature.Recv() != nil && tx.InModule(fn) && fn.Parent() == nil && len(fn.Blocks) > 0 && fn.Synthetic == "" {
			methodsByName[fn.Name()] = append(methodsByName[fn.Name()], fn)
		}
	}
	callers := map[*ssa.Function][]*ssa.Function{}
	for _, fn := range fns {
		seen := map[*ssa.Function]bool{}
		for _, bl := range fn.Blocks {
			for _, ins := range bl.Instrs {
				if ci, ok := ins.(ssa.CallInstruction); ok {
					var cals []*ssa.Function
					if ci.Common().IsInvoke() {
						cals = invokeTargets(ci.Common())
					} else if cal := ci.Common().StaticCallee(); cal != nil {
						cals = []*ssa.Function{cal}
					}
					for _, cal := range cals {
						if !seen[cal] {
							seen[cal] = true
							callers[cal] = append(callers[cal], fn)
						}
					}
				}
			}
		}
	}
	// only functions reachable from module functions through static calls (and module methods through
	// interface calls) can contribute to a module function's summary
	callees := map[*ssa.Function][]*ssa.Function{}
	for cal, cs := range callers {
		for _, c := range cs {
			callees[c] = append(callees[c], cal)
		}
	}
	need := map[*ssa.Function]bool{}
	var stack []*ssa.Function
	for _, fn := range fns {
		if tx.InModule(fn) {
			need[fn] = true
			stack = append(stack, fn)
		}
	}
	for len(stack) > 0 {
		fn := stack[len(stack)-1]
		stack = stack[:len(stack)-1]
		for _, c := range callees[fn] {
			if !need[c] {
				need[c] = true
				stack = append(stack, c)
			}
		}
	}
	var kept []*ssa.Function
	for _, fn := range fns {
		if need[fn] {
			kept = append(kept, fn)
		}
	}
	fns = kept
	dirty := map[*ssa.Function]bool{}
	for _, fn := range fns {
		dirty[fn] = true
	}
	for round := 0; round < 60 && len(dirty) > 0; round++ {
		next := map[*ssa.Function]bool{}
		for _, fn := range fns {
			if !dirty[fn] {
				continue
			}
			changed = false
			analyse(fn)
			if changed {
				for _, c := range callers[fn] {
					next[c] = true
				}
			}
		}
		dirty = next
	}
	// the variables
	type row struct {
		Var     string   `json:"var"`
		Type    string   `json:"type"`
		Pos     string   `json:"pos"`
		Writers []string `json:"writers"`
		How     []string `json:"how"`
		Direct  []string `json:"direct"`
		Indir   []string `json:"indirect"`
		Allowed string   `json:"allowed,omitempty"`
		Known   bool     `json:"known,omitempty"`
	}
	rows := map[string]*row{}
	var names []string
	for _, sp := range l.Prog.AllPackages() {
		p := sp.Pkg.Path()
		if !(p == tx.Module || strings.HasPrefix(p, tx.Module+"/")) {
			continue
		}
		for _, m := range sp.Members {
			g, ok := m.(*ssa.Global)
			if !ok || strings.HasPrefix(g.Name(), "init$guard") {
				continue
			}
			n := gname(g)
			q := l.Prog.Fset.Position(g.Pos())
			f := q.Filename
			if i := strings.Index(f, "/repo/"); i >= 0 {
				f = f[i+6:]
			}
			rows[n] = &row{Var: n, Type: g.Type().(*types.Pointer).Elem().String(), Pos: fmt.Sprintf("%s:%d", f, q.Line)}
			names = append(names, n)
		}
	}
	// Field writes on the pointee type of a package-level pointer variable.  The objects such variables point to
	// (e.g. the *GoFunction values next, ipairsiterator, searchlua ...) reach every runtime through Lua values, a flow
	// the summaries cannot follow, so the rule is by TYPE: any store to field F of struct T, where some package-level
	// variable has type *T, outside init and not into an object allocated in the same function (constructors), is a
	// writer of the pseudo-variable "T#F".
	pointee := map[string][]string{} // T -> package-level variables of type *T
	for _, sp := range l.Prog.AllPackages() {
		if !strings.HasPrefix(sp.Pkg.Path(), tx.Module) {
			continue
		}
		for _, m := range sp.Members {
			if g, ok := m.(*ssa.Global); ok {
				if pt, ok := g.Type().(*types.Pointer).Elem().(*types.Pointer); ok {
					if n, ok := pt.Elem().(*types.Named); ok && n.Obj().Pkg() != nil && strings.HasPrefix(n.Obj().Pkg().Path(), tx.Module) {
						if _, isStruct := n.Underlying().(*types.Struct); isStruct {
							pointee[n.String()] = append(pointee[n.String()], gname(g))
						}
					}
				}
			}
		}
	}
	for _, fn := range fns {
		if !tx.InModule(fn) || isInit(fn) || len(pointee) == 0 {
			continue
		}
		for _, b := range fn.Blocks {
			for _, ins := range b.Instrs {
				st, ok := ins.(*ssa.Store)
				if !ok {
					continue
				}
				fa, ok := st.Addr.(*ssa.FieldAddr)
				if !ok {
					continue
				}
				pt, ok := fa.X.Type().Underlying().(*types.Pointer)
				if !ok {
					continue
				}
				n, ok := pt.Elem().(*types.Named)
				if !ok {
					continue
				}
				vars, shared := pointee[n.String()]
				if !shared {
					continue
				}
				if _, fresh := fa.X.(*ssa.Alloc); fresh {
					continue // a constructor filling the object it has just allocated
				}
				fname := n.Underlying().(*types.Struct).Field(fa.Field).Name()
				short := strings.TrimPrefix(strings.TrimPrefix(n.String(), tx.Module), "/")
				v := short + "#" + fname
				r := rows[v]
				if r == nil {
					sort.Strings(vars)
					r = &row{Var: v, Type: "field of the struct package-level pointers point to: " + strings.Join(vars, ", "), Pos: pos2(l, st.Pos())}
					rows[v] = r
					names = append(names, v)
				}
				dup := false
				for _, w := range r.Writers {
					dup = dup || w == fn.String()
				}
				if !dup {
					r.Writers = append(r.Writers, fn.String())
					r.How = append(r.How, "store to a field of an object that package-level pointers share between runtimes")
				}
			}
		}
	}
	for _, fn := range fns {
		if !tx.InModule(fn) || isInit(fn) {
			continue
		}
		s := sums[fn]
		if s == nil {
			continue
		}
		for v, how := range s.wr {
			r := rows[v]
			if r == nil && !(how == "store" || strings.HasPrefix(how, "call ") || strings.HasPrefix(how, "shared mutable Lua object")) {
				// write-through rows are kept for the module's own variables only: objects the Go standard
				// library hands out (os.Stdin, crypto/rand.Reader, error values) are outside the table
				continue
			}
			if r == nil {
				// state outside the module (stdlib): only the curated pseudo variables and direct stores
				r = &row{Var: v, Type: "(process-global state of the Go standard library)", Pos: "-"}
				rows[v] = r
				names = append(names, v)
			}
			r.Writers = append(r.Writers, fn.String())
			r.How = append(r.How, how)
		}
	}
	sort.Strings(names)
	knownSet := map[string]bool{}
	for _, k := range strings.Split(*known, ",") {
		if k != "" {
			knownSet[k] = true
		}
	}
	var list []*row
	nW := 0
	for _, n := range names {
		r := rows[n]
		// deterministic order of writers
		idx := make([]int, len(r.Writers))
		for i := range idx {
			idx[i] = i
		}
		sort.Slice(idx, func(i, j int) bool { return r.Writers[idx[i]] < r.Writers[idx[j]] })
		w2, h2 := []string{}, []string{}
		for _, i := range idx {
			w2 = append(w2, r.Writers[i])
			h2 = append(h2, r.How[i])
		}
		r.Writers, r.How = w2, h2
		r.Direct, r.Indir = []string{}, []string{}
		for i := range w2 {
			if h2[i] == "store" || strings.HasPrefix(h2[i], "call ") {
				r.Direct = append(r.Direct, w2[i])
			} else {
				r.Indir = append(r.Indir, w2[i])
			}
		}
		if why, ok := allow[n]; ok {
			r.Allowed = why
		}
		if knownSet[n] && len(r.Writers) > 0 {
			r.Known = true
		}
		if len(r.Writers) > 0 {
			nW++
		}
		list = append(list, r)
	}
	var unusedAllow []string
	for n := range allow {
		if r := rows[n]; r == nil || len(r.Writers) == 0 {
			unusedAllow = append(unusedAllow, n)
		}
	}
	sort.Strings(unusedAllow)

	var b strings.Builder
	w := func(format string, a ...interface{}) { fmt.Fprintf(&b, format, a...) }
	w("(* Iso/Generated.v — GENERATED by /verif/translate/globals from %s on every run of ./check C20.\n", *repo)
	w("   Do not edit.  %d package-level variables, %d with writers outside package initialisers. *)\n", len(list), nW)
	w("From Coq Require Import List String.\nImport ListNotations.\nOpen Scope string_scope.\n\n")
	w("(* (variable, functions outside init that assign it / call the state-changing API,\n    functions outside init that write THROUGH it: stores via a pointer, slice or map held in it) *)\n")
	w("Definition shared_writes : list (string * list string * list string) := [\n")
	strs := func(xs []string) {
		w("[")
		for j, x := range xs {
			if j > 0 {
				w("; ")
			}
			w("%s", tx.CoqString(x))
		}
		w("]")
	}
	for i, r := range list {
		if i > 0 {
			w(";\n")
		}
		w("  (%s, ", tx.CoqString(r.Var))
		strs(r.Direct)
		w(", ")
		strs(r.Indir)
		w(")")
	}
	w("\n].\n\n")
	// independent enumeration of the package-level variables: go/types scopes of every module package loaded
	type pv struct {
		pkg  string
		vars []string
	}
	var allv []pv
	nall := 0
	packages.Visit(l.Pkgs, nil, func(p *packages.Package) {
		if !(p.PkgPath == tx.Module || strings.HasPrefix(p.PkgPath, tx.Module+"/")) || p.Types == nil {
			return
		}
		rel := strings.TrimPrefix(strings.TrimPrefix(p.PkgPath, tx.Module), "/")
		if rel == "" {
			rel = "."
		}
		e := pv{pkg: rel}
		sc := p.Types.Scope()
		for _, n := range sc.Names() {
			if _, ok := sc.Lookup(n).(*types.Var); ok {
				e.vars = append(e.vars, rel+"."+n)
			}
		}
		nall += len(e.vars)
		allv = append(allv, e)
	})
	sort.Slice(allv, func(i, j int) bool { return allv[i].pkg < allv[j].pkg })
	w("(* every package of the module that was loaded (import closure of ./lib/... ./runtime/..., non-test, default tags)\n    with its package-level variables, enumerated from the type checker's package scopes (independently of the SSA\n    members the rows above come from) *)\n")
	w("Definition all_vars : list (string * list string) := [\n")
	for i, e := range allv {
		if i > 0 {
			w(";\n")
		}
		w("  (%s, ", tx.CoqString(e.pkg))
		strs(e.vars)
		w(")")
	}
	w("\n].\nDefinition package_count : nat := %d.\nDefinition var_count : nat := %d.\n\n", len(allv), nall)
	w("(* allow-list (translate/globals/allow.txt): variables whose write-through rows are spurious or harmless, one justification each; never covers direct assignments *)\n")
	w("Definition allowed_vars : list string := [")
	first := true
	for _, r := range list {
		if r.Allowed != "" && len(r.Indir) > 0 {
			if !first {
				w(";")
			}
			first = false
			w("\n  %s", tx.CoqString(r.Var))
		}
	}
	w("].\n\n")
	w("(* variables recorded as known findings (known_findings.d/C20.json) that still have writers *)\n")
	w("Definition known_vars : list string := [")
	first = true
	for _, r := range list {
		if r.Known {
			if !first {
				w(";")
			}
			first = false
			w("\n  %s", tx.CoqString(r.Var))
		}
	}
	w("].\n")
	if *out != "" {
		if err := os.WriteFile(*out, []byte(b.String()), 0o644); err != nil {
			fmt.Fprintln(os.Stderr, err)
			os.Exit(2)
		}
	}
	if *jout != "" {
		data, _ := json.MarshalIndent(map[string]interface{}{"rows": list, "allow_unused": unusedAllow, "lua_shared_candidates": luaSharedNames(), "os_file_close_callers": osFileCloseCallers(fns), "packages": len(allv), "vars_in_scopes": nall,
			"total_s": time.Since(t0).Seconds()}, "", " ")
		os.WriteFile(*jout, data, 0o644)
	}
	fmt.Fprintf(os.Stderr, "globals: %d variables, %d with writers outside init, %.1fs (load+ssa %.1fs, %d functions analysed)\n", len(list), nW, time.Since(t0).Seconds(), tLoad.Seconds(), len(fns))
}
