// translate/flags — regenerates coq/theories/Flags/Generated.v from /repo's source.
//
//	registry : every GoFunction construction site of the golua module
//	           ((*Runtime).SetEnvGoFunc, runtime.NewGoFunction) with the flags it
//	           receives through SolemnlyDeclareCompliance (function and method form)
//	graph    : CHA call graph restricted to the nodes reachable from the registered
//	           functions, with the out-edges of safeio.* removed (guarded) and the
//	           edges / nodes named in allow.txt removed
//	sinks    : operating-system primitives that acquire a file, directory entry,
//	           process, plugin or network connection
//
// Everything the translator cannot resolve (a non-constant flag, a GoFunction value
// whose construction site is unknown, a non-static function argument) is emitted as an
// `unresolved` row; Properties/C08.v requires `unresolved = []`.
//
// usage: flags -repo /repo -out Generated.v -json diag.json -allow allow.txt [-known name,name]
package main

import (
	"bufio"
	"encoding/json"
	"flag"
	"fmt"
	"go/constant"
	"go/token"
	"os"
	"sort"
	"strings"
	"time"

	"golang.org/x/tools/go/callgraph"
	"golang.org/x/tools/go/callgraph/cha"
	"golang.org/x/tools/go/callgraph/vta"
	"golang.org/x/tools/go/ssa"

	"gvtranslate/tx"
)

const rtPkg = tx.Module + "/runtime"

type Site struct {
	Pkg      string // package path relative to the module
	LuaName  string
	GoName   string // linker-style name of the implementing Go function
	Fn       *ssa.Function
	Flags    uint64
	Kind     string
	Pos      string
	Call     *ssa.Call
	Declared int // number of SolemnlyDeclareCompliance calls that reach it
}

var fset *token.FileSet

func pos(p token.Pos) string {
	if !p.IsValid() {
		return "-"
	}
	q := fset.Position(p)
	f := q.Filename
	if i := strings.Index(f, "/repo/"); i >= 0 {
		f = f[i+6:]
	}
	return fmt.Sprintf("%s:%d", f, q.Line)
}

func isRuntimeFunc(fn *ssa.Function, name string, recv string) bool {
	if fn == nil || fn.Name() != name || tx.FnPkgPath(fn) != rtPkg {
		return false
	}
	r := fn.Signature.Recv()
	if recv == "" {
		return r == nil
	}
	return r != nil && strings.HasSuffix(r.Type().String(), recv)
}

// resolveFunc finds the single static function a GoFunctionFunc value denotes: a function,
// a closure, a package-level variable assigned exactly once (in the package initialiser),
// or the result of a static call all of whose returns denote the same function.
func resolveFunc(v ssa.Value) *ssa.Function {
	return resolveFuncD(v, 0)
}

var globalStores map[*ssa.Global][]*ssa.Store

func resolveFuncD(v ssa.Value, depth int) *ssa.Function {
	if depth > 6 {
		return nil
	}
	for {
		switch x := v.(type) {
		case *ssa.Function:
			return x
		case *ssa.MakeClosure:
			return x.Fn.(*ssa.Function)
		case *ssa.ChangeType:
			v = x.X
		case *ssa.MakeInterface:
			v = x.X
		case *ssa.UnOp:
			g, ok := x.X.(*ssa.Global)
			if !ok || x.Op != token.MUL {
				return nil
			}
			sts := globalStores[g]
			if len(sts) != 1 || sts[0].Parent().Name() != "init" {
				return nil
			}
			v = sts[0].Val
			depth++
			if depth > 6 {
				return nil
			}
		case *ssa.Call:
			cal := x.Common().StaticCallee()
			if cal == nil || len(cal.Blocks) == 0 {
				return nil
			}
			var res *ssa.Function
			for _, b := range cal.Blocks {
				for _, ins := range b.Instrs {
					if r, ok := ins.(*ssa.Return); ok {
						if len(r.Results) != 1 {
							return nil
						}
						f := resolveFuncD(r.Results[0], depth+1)
						if f == nil || (res != nil && res != f) {
							return nil
						}
						res = f
					}
				}
			}
			return res
		default:
			return nil
		}
	}
}

func constString(v ssa.Value) (string, bool) {
	if c, ok := v.(*ssa.Const); ok && c.Value != nil && c.Value.Kind() == constant.String {
		return constant.StringVal(c.Value), true
	}
	return "", false
}

func constUint(v ssa.Value) (uint64, bool) {
	for {
		if ct, ok := v.(*ssa.ChangeType); ok {
			v = ct.X
			continue
		}
		if cv, ok := v.(*ssa.Convert); ok {
			v = cv.X
			continue
		}
		break
	}
	if c, ok := v.(*ssa.Const); ok && c.Value != nil && c.Value.Kind() == constant.Int {
		return c.Uint64(), true
	}
	return 0, false
}

type translator struct {
	l          *tx.Loaded
	sites      []*Site
	byCall     map[*ssa.Call]*Site
	byGlobal   map[*ssa.Global][]*Site
	unresolved []string
}

func (t *translator) unres(format string, a ...interface{}) {
	t.unresolved = append(t.unresolved, fmt.Sprintf(format, a...))
}

// cmt makes s safe inside a Coq comment.
func cmt(s string) string {
	return strings.ReplaceAll(strings.ReplaceAll(s, "(*", "(ptr "), "*)", "* )")
}

func relPkg(p string) string {
	return strings.TrimPrefix(strings.TrimPrefix(p, tx.Module), "/")
}

func (t *translator) findSites() {
	globalStores = map[*ssa.Global][]*ssa.Store{}
	for fn := range t.l.Funcs {
		for _, b := range fn.Blocks {
			for _, ins := range b.Instrs {
				if st, ok := ins.(*ssa.Store); ok {
					if g, ok := st.Addr.(*ssa.Global); ok {
						globalStores[g] = append(globalStores[g], st)
					}
				}
			}
		}
	}
	for _, fn := range t.l.SortedFuncs() {
		if !tx.InModule(fn) {
			continue
		}
		for _, b := range fn.Blocks {
			for _, ins := range b.Instrs {
				call, ok := ins.(*ssa.Call)
				if !ok {
					// go / defer of a constructor would be odd; report
					if ci, ok := ins.(ssa.CallInstruction); ok {
						cal := ci.Common().StaticCallee()
						if isRuntimeFunc(cal, "SetEnvGoFunc", "Runtime") || isRuntimeFunc(cal, "NewGoFunction", "") {
							t.unres("constructor called through go/defer at %s", pos(ins.Pos()))
						}
					}
					continue
				}
				cal := call.Common().StaticCallee()
				var fArg, nameArg ssa.Value
				kind := ""
				switch {
				case isRuntimeFunc(cal, "SetEnvGoFunc", "Runtime"):
					a := call.Common().Args // recv, table, name, f, nArgs, hasEtc
					nameArg, fArg, kind = a[2], a[3], "SetEnvGoFunc"
				case isRuntimeFunc(cal, "NewGoFunction", ""):
					a := call.Common().Args
					fArg, nameArg, kind = a[0], a[1], "NewGoFunction"
				default:
					continue
				}
				if tx.FnPkgPath(fn) == rtPkg && (fn.Name() == "SetEnvGoFunc" || fn.Name() == "NewGoFunction") {
					continue
				}
				s := &Site{Pkg: relPkg(tx.FnPkgPath(fn)), Kind: kind, Pos: pos(call.Pos()), Call: call}
				if n, ok := constString(nameArg); ok {
					s.LuaName = n
				} else {
					s.LuaName = "?"
					t.unres("non-constant function name at %s", s.Pos)
				}
				s.Fn = resolveFunc(fArg)
				if s.Fn == nil {
					t.unres("function argument of %s at %s is not a static function or closure (%T)", kind, s.Pos, fArg)
					s.GoName = "?"
				} else {
					s.GoName = tx.RuntimeName(s.Fn)
				}
				t.sites = append(t.sites, s)
				t.byCall[call] = s
			}
		}
	}
	// direct struct literal construction of GoFunction outside package runtime cannot
	// happen (unexported fields); inside package runtime: report any &GoFunction{} other
	// than in the two constructors
	for _, fn := range t.l.SortedFuncs() {
		if tx.FnPkgPath(fn) != rtPkg || fn.Name() == "SetEnvGoFunc" || fn.Name() == "NewGoFunction" {
			continue
		}
		for _, b := range fn.Blocks {
			for _, ins := range b.Instrs {
				if a, ok := ins.(*ssa.Alloc); ok && strings.HasSuffix(a.Type().String(), "runtime.GoFunction") {
					t.unres("GoFunction allocated outside the constructors at %s (%s)", pos(a.Pos()), fn)
				}
			}
		}
	}
	// package-level variables initialised with a constructor call
	for _, fn := range t.l.SortedFuncs() {
		if !tx.InModule(fn) {
			continue
		}
		for _, b := range fn.Blocks {
			for _, ins := range b.Instrs {
				st, ok := ins.(*ssa.Store)
				if !ok {
					continue
				}
				g, ok := st.Addr.(*ssa.Global)
				if !ok {
					continue
				}
				if c, ok := st.Val.(*ssa.Call); ok {
					if s := t.byCall[c]; s != nil {
						t.byGlobal[g] = append(t.byGlobal[g], s)
					}
				}
			}
		}
	}
}

// sitesOf resolves a *GoFunction value to its construction site(s).
func (t *translator) sitesOf(v ssa.Value, seen map[ssa.Value]bool, where string) []*Site {
	if seen[v] {
		return nil
	}
	seen[v] = true
	switch x := v.(type) {
	case *ssa.Call:
		if s := t.byCall[x]; s != nil {
			return []*Site{s}
		}
	case *ssa.Phi:
		var out []*Site
		for _, e := range x.Edges {
			out = append(out, t.sitesOf(e, seen, where)...)
		}
		return out
	case *ssa.UnOp:
		if x.Op == token.MUL {
			switch a := x.X.(type) {
			case *ssa.Global:
				if ss := t.byGlobal[a]; len(ss) > 0 {
					return ss
				}
			case *ssa.Alloc:
				var out []*Site
				for _, r := range *a.Referrers() {
					if st, ok := r.(*ssa.Store); ok && st.Addr == a {
						out = append(out, t.sitesOf(st.Val, seen, where)...)
					}
				}
				if len(out) > 0 {
					return out
				}
			}
		}
	}
	t.unres("cannot resolve the GoFunction value %s (%T) declared compliant at %s", v.Name(), v, where)
	return nil
}

func (t *translator) findDeclarations() {
	for _, fn := range t.l.SortedFuncs() {
		if !tx.InModule(fn) {
			continue
		}
		if tx.FnPkgPath(fn) == rtPkg && fn.Name() == "SolemnlyDeclareCompliance" {
			continue
		}
		for _, b := range fn.Blocks {
			for _, ins := range b.Instrs {
				ci, ok := ins.(ssa.CallInstruction)
				if !ok {
					continue
				}
				cal := ci.Common().StaticCallee()
				where := pos(ins.Pos())
				switch {
				case isRuntimeFunc(cal, "SolemnlyDeclareCompliance", ""):
					a := ci.Common().Args
					fl, ok := constUint(a[0])
					if !ok {
						t.unres("non-constant flags at %s", where)
						continue
					}
					var vals []ssa.Value
					switch sl := a[1].(type) {
					case *ssa.Slice:
						al, ok := sl.X.(*ssa.Alloc)
						if !ok {
							t.unres("variadic argument at %s is not a fresh array", where)
							continue
						}
						for _, r := range *al.Referrers() {
							ia, ok := r.(*ssa.IndexAddr)
							if !ok {
								continue
							}
							for _, rr := range *ia.Referrers() {
								if st, ok := rr.(*ssa.Store); ok && st.Addr == ia {
									vals = append(vals, st.Val)
								}
							}
						}
					case *ssa.Const: // nil slice: no functions
					default:
						t.unres("variadic argument at %s is passed as a slice value (%T)", where, a[1])
						continue
					}
					for _, v := range vals {
						for _, s := range t.sitesOf(v, map[ssa.Value]bool{}, where) {
							s.Flags |= fl
							s.Declared++
						}
					}
				case isRuntimeFunc(cal, "SolemnlyDeclareCompliance", "GoFunction"):
					a := ci.Common().Args
					fl, ok := constUint(a[1])
					if !ok {
						t.unres("non-constant flags at %s", where)
						continue
					}
					for _, s := range t.sitesOf(a[0], map[ssa.Value]bool{}, where) {
						s.Flags |= fl
						s.Declared++
					}
				default:
					// the method value / function value used other than by a static call
					for _, op := range ins.Operands(nil) {
						if f, ok := (*op).(*ssa.Function); ok && tx.FnPkgPath(f) == rtPkg && f.Name() == "SolemnlyDeclareCompliance" {
							t.unres("SolemnlyDeclareCompliance used as a value at %s", where)
						}
					}
				}
			}
		}
	}
}

func isGoFunctionFuncCall(ci ssa.CallInstruction) bool {
	if ci == nil {
		return false
	}
	c := ci.Common()
	if c.IsInvoke() || c.StaticCallee() != nil {
		return false
	}
	return strings.HasSuffix(c.Value.Type().String(), "/runtime.GoFunctionFunc")
}

// isGateCall: the dynamic call of the GoFunctionFunc in (*GoCont).RunInThread, and the
// function starts with the CheckRequiredFlags test (checked structurally: the first call
// instruction of the function is CheckRequiredFlags and its error result guards the rest).
func isGateCall(fn *ssa.Function, ci ssa.CallInstruction) bool {
	if !isGoFunctionFuncCall(ci) || !isRuntimeFunc(fn, "RunInThread", "GoCont") {
		return false
	}
	return gateShape(fn)
}

var gateShapeMemo = map[*ssa.Function]bool{}

func gateShape(fn *ssa.Function) bool {
	if v, ok := gateShapeMemo[fn]; ok {
		return v
	}
	ok := false
	if len(fn.Blocks) > 0 {
		for _, ins := range fn.Blocks[0].Instrs {
			if ci, isCall := ins.(ssa.CallInstruction); isCall {
				cal := ci.Common().StaticCallee()
				name := ""
				if cal != nil {
					name = cal.Name()
				} else if ci.Common().IsInvoke() {
					name = ci.Common().Method.Name()
				}
				if name == "CheckRequiredFlags" {
					// block 0 must end in an If on its result
					if _, isIf := fn.Blocks[0].Instrs[len(fn.Blocks[0].Instrs)-1].(*ssa.If); isIf {
						ok = true
					}
				}
				break
			}
		}
	}
	gateShapeMemo[fn] = ok
	return ok
}

// ---------------------------------------------------------------- sinks

var osSinks = map[string]bool{}
var syscallSinks = map[string]bool{}

func init() {
	for _, n := range strings.Fields(`OpenFile Open Create CreateTemp Remove RemoveAll Rename Mkdir MkdirAll MkdirTemp
		ReadFile WriteFile ReadDir Chdir Chmod Chown Lchown Chtimes Symlink Link Truncate StartProcess
		Stat Lstat Readlink DirFS CopyFS NewFile Pipe`) {
		osSinks[n] = true
	}
	// NewFile / Pipe are not sinks (no path is named): remove again; kept in the list above only as documentation
	delete(osSinks, "NewFile")
	delete(osSinks, "Pipe")
	for _, n := range strings.Fields(`Open Openat Creat Unlink Unlinkat Rename Renameat Mkdir Mkdirat Mknod Mknodat Rmdir Chdir Chroot
		Chmod Fchmodat Chown Lchown Fchownat Symlink Link Truncate Readlink Stat Lstat Statfs Access Faccessat
		ForkExec StartProcess Exec forkExec forkAndExecInChild forkAndExecInChild1 forkExecPipe
		Socket socket Connect connect Bind bind Listen Accept Accept4 accept accept4 Socketpair socketpair
		Sendto sendto Sendmsg sendmsg SendmsgN Mount Unmount Ptrace PtraceAttach Kill Reboot
		Utimes UtimesNano Mkfifo Setxattr Removexattr Acct Swapon Swapoff InotifyAddWatch`) {
		syscallSinks[n] = true
	}
}

func sinkClass(fn *ssa.Function) string {
	if fn.Parent() != nil {
		return ""
	}
	p := tx.FnPkgPath(fn)
	n := fn.Name()
	hasRecv := fn.Signature.Recv() != nil
	switch p {
	case "os":
		if !hasRecv && osSinks[n] {
			return "file"
		}
	case "io/ioutil":
		if n == "ReadFile" || n == "WriteFile" || n == "ReadDir" || n == "TempFile" || n == "TempDir" {
			return "file"
		}
	case "os/exec":
		if hasRecv && (n == "Start" || n == "Run" || n == "Output" || n == "CombinedOutput") {
			return "process"
		}
		if !hasRecv && (n == "LookPath") {
			return "file"
		}
	case "syscall", "golang.org/x/sys/unix":
		if !hasRecv && syscallSinks[n] {
			switch {
			case strings.Contains(strings.ToLower(n), "exec") || n == "StartProcess" || n == "Kill" || strings.HasPrefix(n, "Ptrace"):
				return "process"
			case strings.Contains(strings.ToLower(n), "sock") || strings.Contains(strings.ToLower(n), "connect") ||
				strings.Contains(strings.ToLower(n), "accept") || strings.Contains(strings.ToLower(n), "bind") ||
				n == "Listen" || strings.Contains(strings.ToLower(n), "send"):
				return "network"
			}
			return "file"
		}
	case "plugin":
		if n == "Open" || n == "open" {
			return "plugin"
		}
	case "net":
		if strings.HasPrefix(n, "Dial") || strings.HasPrefix(n, "Listen") || strings.HasPrefix(n, "FileConn") ||
			strings.HasPrefix(n, "FileListener") || strings.HasPrefix(n, "FilePacketConn") || strings.HasPrefix(n, "Lookup") {
			return "network"
		}
	}
	return ""
}

// ---------------------------------------------------------------- allow list

type allow struct {
	edges map[[2]string]string
	nodes map[string]string
	usedE map[[2]string]bool
	usedN map[string]bool
}

func readAllow(path string) (*allow, error) {
	a := &allow{edges: map[[2]string]string{}, nodes: map[string]string{}, usedE: map[[2]string]bool{}, usedN: map[string]bool{}}
	if path == "" {
		return a, nil
	}
	f, err := os.Open(path)
	if err != nil {
		return nil, err
	}
	defer f.Close()
	sc := bufio.NewScanner(f)
	ln := 0
	for sc.Scan() {
		ln++
		line := strings.TrimSpace(sc.Text())
		if line == "" || strings.HasPrefix(line, "#") {
			continue
		}
		i := strings.Index(line, " # ")
		if i < 0 || strings.TrimSpace(line[i+3:]) == "" {
			return nil, fmt.Errorf("%s:%d: entry without justification", path, ln)
		}
		why := strings.TrimSpace(line[i+3:])
		body := strings.TrimSpace(line[:i])
		switch {
		case strings.HasPrefix(body, "cut-node "):
			a.nodes[strings.TrimSpace(body[9:])] = why
		case strings.HasPrefix(body, "cut-edge "):
			parts := strings.Split(body[9:], " -> ")
			if len(parts) != 2 {
				return nil, fmt.Errorf("%s:%d: bad edge", path, ln)
			}
			a.edges[[2]string{strings.TrimSpace(parts[0]), strings.TrimSpace(parts[1])}] = why
		default:
			return nil, fmt.Errorf("%s:%d: unknown entry", path, ln)
		}
	}
	return a, nil
}

// ---------------------------------------------------------------- main

func main() {
	repo := flag.String("repo", "/repo", "golua checkout")
	out := flag.String("out", "", "Generated.v to write")
	jout := flag.String("json", "", "diagnosis JSON to write")
	allowPath := flag.String("allow", "", "allow list")
	algo := flag.String("algo", "vta", "cha | vta (VTA refinement of the CHA graph)")
	known := flag.String("known", "", "comma separated Go names of registry rows recorded as known findings")
	flag.Parse()
	t0 := time.Now()
	l, err := tx.Load(*repo, "./lib/...", "./runtime/...", "./safeio/...")
	if err != nil {
		fmt.Fprintln(os.Stderr, "load:", err)
		os.Exit(2)
	}
	fset = l.Prog.Fset
	tLoad := time.Since(t0)
	t := &translator{l: l, byCall: map[*ssa.Call]*Site{}, byGlobal: map[*ssa.Global][]*Site{}}
	t.findSites()
	t.findDeclarations()
	al, err := readAllow(*allowPath)
	if err != nil {
		fmt.Fprintln(os.Stderr, "allow:", err)
		os.Exit(2)
	}

	cg := cha.CallGraph(l.Prog)
	chaNodes := len(cg.Nodes)
	if *algo == "vta" {
		cg = vta.CallGraph(l.Funcs, cg)
	}
	tCG := time.Since(t0)

	// fail closed: a value of type GoFunctionFunc must be called nowhere but in GoCont.RunInThread
	for _, fn := range l.SortedFuncs() {
		if !tx.InModule(fn) {
			continue
		}
		for _, b := range fn.Blocks {
			for _, ins := range b.Instrs {
				if ci, ok := ins.(ssa.CallInstruction); ok && isGoFunctionFuncCall(ci) && !isGateCall(fn, ci) {
					t.unres("a GoFunctionFunc value is called outside GoCont.RunInThread at %s", pos(ins.Pos()))
				}
			}
		}
	}
	gateCut := 0
	// successor lists with the cuts applied
	guarded := func(fn *ssa.Function) bool {
		return tx.FnPkgPath(fn) == tx.Module+"/safeio"
	}
	succ := func(fn *ssa.Function) []*ssa.Function {
		n := cg.Nodes[fn]
		if n == nil {
			return nil
		}
		if guarded(fn) {
			return nil
		}
		if _, ok := al.nodes[fn.String()]; ok {
			al.usedN[fn.String()] = true
			return nil
		}
		seen := map[*ssa.Function]bool{}
		var out []*ssa.Function
		for _, e := range n.Out {
			c := e.Callee.Func
			if c == nil || seen[c] {
				continue
			}
			if isGateCall(fn, e.Site) {
				// the call c.f(t, c) in GoCont.RunInThread: preceded by CheckRequiredFlags
				// (Flags/Gate.v); the callee is itself a registry row and checked as such
				gateCut++
				continue
			}
			seen[c] = true
			k := [2]string{fn.String(), c.String()}
			if _, ok := al.edges[k]; ok {
				al.usedE[k] = true
				continue
			}
			out = append(out, c)
		}
		sort.Slice(out, func(i, j int) bool { return out[i].String() < out[j].String() })
		return out
	}
	_ = callgraph.Node{}

	// reachable subgraph from all registered functions (BFS), interning nodes
	id := map[*ssa.Function]int{}
	var order []*ssa.Function
	intern := func(fn *ssa.Function) int {
		if k, ok := id[fn]; ok {
			return k
		}
		k := len(order) + 1
		id[fn] = k
		order = append(order, fn)
		return k
	}
	sort.SliceStable(t.sites, func(i, j int) bool {
		a, b := t.sites[i], t.sites[j]
		if a.Pkg != b.Pkg {
			return a.Pkg < b.Pkg
		}
		if a.GoName != b.GoName {
			return a.GoName < b.GoName
		}
		return a.LuaName < b.LuaName
	})
	for _, s := range t.sites {
		if s.Fn != nil {
			intern(s.Fn)
		}
	}
	adj := map[int][]int{}
	nEdges := 0
	for i := 0; i < len(order); i++ {
		fn := order[i]
		var ss []int
		for _, c := range succ(fn) {
			ss = append(ss, intern(c))
		}
		adj[i+1] = ss
		nEdges += len(ss)
	}
	var sinks []int
	sinkCls := map[int]string{}
	for i, fn := range order {
		if c := sinkClass(fn); c != "" {
			sinks = append(sinks, i+1)
			sinkCls[i+1] = c
		}
	}

	// diagnosis (untrusted; the Coq check is what counts): shortest path from each
	// iosafe root to a sink
	const ioSafe = 4
	type diag struct {
		GoName  string   `json:"go_name"`
		LuaName string   `json:"lua_name"`
		Pkg     string   `json:"pkg"`
		Pos     string   `json:"pos"`
		Flags   uint64   `json:"flags"`
		Kind    string   `json:"kind"`
		Node    int      `json:"node"`
		Path    []string `json:"path,omitempty"`
		PathIds []int    `json:"path_ids,omitempty"`
		Sink    string   `json:"sink,omitempty"`
		Class   string   `json:"sink_class,omitempty"`
	}
	isSink := map[int]bool{}
	for _, s := range sinks {
		isSink[s] = true
	}
	bfs := func(root int) []int {
		prev := map[int]int{root: 0}
		q := []int{root}
		for len(q) > 0 {
			n := q[0]
			q = q[1:]
			if isSink[n] {
				var p []int
				for x := n; x != 0; x = prev[x] {
					p = append([]int{x}, p...)
				}
				return p
			}
			for _, m := range adj[n] {
				if _, ok := prev[m]; !ok {
					prev[m] = n
					q = append(q, m)
				}
			}
		}
		return nil
	}
	knownSet := map[string]bool{}
	for _, k := range strings.Split(*known, ",") {
		if k != "" {
			knownSet[k] = true
		}
	}
	var rows []diag
	var knownRows []diag
	for _, s := range t.sites {
		d := diag{GoName: s.GoName, LuaName: s.LuaName, Pkg: s.Pkg, Pos: s.Pos, Flags: s.Flags, Kind: s.Kind}
		if s.Fn != nil {
			d.Node = id[s.Fn]
			if s.Flags&ioSafe != 0 {
				if p := bfs(d.Node); p != nil {
					d.PathIds = p
					for _, x := range p {
						d.Path = append(d.Path, order[x-1].String())
					}
					d.Sink = d.Path[len(d.Path)-1]
					d.Class = sinkCls[p[len(p)-1]]
					if knownSet[s.GoName] {
						knownRows = append(knownRows, d)
					}
				}
			}
		}
		rows = append(rows, d)
	}
	var unusedAllow []string
	for k := range al.edges {
		if !al.usedE[k] {
			unusedAllow = append(unusedAllow, k[0]+" -> "+k[1])
		}
	}
	for k := range al.nodes {
		if !al.usedN[k] {
			unusedAllow = append(unusedAllow, "node "+k)
		}
	}
	sort.Strings(unusedAllow)

	// ------------------------------------------------------------ emit Coq
	var b strings.Builder
	w := func(format string, a ...interface{}) { fmt.Fprintf(&b, format, a...) }
	w("(* Flags/Generated.v — GENERATED by /verif/translate/flags from %s on every run of ./check C08.\n", *repo)
	w("   Do not edit.  %d registry rows, %d graph nodes, %d edges, %d sinks. *)\n", len(t.sites), len(order), nEdges, len(sinks))
	w("From Coq Require Import List String PArith NArith.\nImport ListNotations.\nOpen Scope string_scope.\nOpen Scope positive_scope.\n\n")
	w("(* (Go function, name given to Lua, root node in [graph], declared ComplianceFlags:\n    memsafe=1 cpusafe=2 iosafe=4 timesafe=8) *)\n")
	w("Definition registry : list (string * string * positive * N) := [\n")
	first := true
	for _, s := range t.sites {
		if s.Fn == nil {
			continue
		}
		if !first {
			w(";\n")
		}
		first = false
		w("  (%s, %s, %d, %d%%N)", tx.CoqString(s.GoName), tx.CoqString(s.Pkg+":"+s.LuaName), id[s.Fn], s.Flags)
	}
	w("\n].\n\n")
	w("(* what the translator could not resolve; must be empty *)\nDefinition unresolved : list string := [")
	for i, u := range t.unresolved {
		if i > 0 {
			w(";")
		}
		w("\n  %s", tx.CoqString(u))
	}
	w("].\n\n")
	w("(* registry rows recorded as known findings that still reach a sink: (root node, witness path) *)\n")
	w("Definition known_exceptions : list (positive * list positive) := [")
	for i, d := range knownRows {
		if i > 0 {
			w(";")
		}
		w("\n  (%d, [", d.Node)
		for j, x := range d.PathIds {
			if j > 0 {
				w("; ")
			}
			w("%d", x)
		}
		w("]) (* %s -> %s *)", cmt(d.GoName), cmt(d.Sink))
	}
	w("].\n\n")
	w("Definition sinks : list positive := [")
	for i, s := range sinks {
		if i > 0 {
			w("; ")
		}
		w("%d", s)
	}
	w("].\n\n")
	w("(* CHA call graph restricted to what is reachable from the registry; safeio.* and allow-listed cuts have no successors *)\n")
	w("Definition graph : list (positive * list positive) := [\n")
	for i := range order {
		if i > 0 {
			w(";\n")
		}
		w(" (%d, [", i+1)
		for j, x := range adj[i+1] {
			if j > 0 {
				w(";")
			}
			w("%d", x)
		}
		w("])")
	}
	w("\n].\n")
	if *out != "" {
		if err := os.WriteFile(*out, []byte(b.String()), 0o644); err != nil {
			fmt.Fprintln(os.Stderr, err)
			os.Exit(2)
		}
	}
	if *jout != "" {
		names := make([]string, len(order))
		for i, fn := range order {
			names[i] = fn.String()
		}
		sinkNames := []string{}
		for _, s := range sinks {
			sinkNames = append(sinkNames, names[s-1])
		}
		allowUsed := []string{}
		for k := range al.usedE {
			allowUsed = append(allowUsed, k[0]+" -> "+k[1])
		}
		for k := range al.usedN {
			allowUsed = append(allowUsed, "node "+k)
		}
		sort.Strings(allowUsed)
		j := map[string]interface{}{
			"registry": rows, "unresolved": t.unresolved, "nodes": len(order), "edges": nEdges,
			"cha_nodes": chaNodes, "gate_edges_cut": gateCut, "algo": *algo, "sinks": sinkNames, "node_names": names,
			"allow_used": allowUsed, "allow_unused": unusedAllow,
			"load_s": tLoad.Seconds(), "callgraph_s": tCG.Seconds(), "total_s": time.Since(t0).Seconds(),
		}
		data, _ := json.MarshalIndent(j, "", " ")
		if err := os.WriteFile(*jout, data, 0o644); err != nil {
			fmt.Fprintln(os.Stderr, err)
			os.Exit(2)
		}
	}
	fmt.Fprintf(os.Stderr, "flags: %d sites, %d unresolved, CHA %d nodes, subgraph(%s) %d nodes %d edges, %d sinks, %.1fs\n",
		len(t.sites), len(t.unresolved), chaNodes, *algo, len(order), nEdges, len(sinks), time.Since(t0).Seconds())
}
