// Package tx: shared loader for the two translators (flags, globals).
// Loads the non-test, default-tag packages of the golua module at the given
// directory with go/packages and builds SSA for them and all dependencies.
package tx

import (
	"encoding/json"
	"fmt"
	"os"
	"sort"
	"strings"

	"golang.org/x/tools/go/packages"
	"golang.org/x/tools/go/ssa"
	"golang.org/x/tools/go/ssa/ssautil"
)

const Module = "github.com/arnodel/golua"

type Loaded struct {
	Prog  *ssa.Program
	Pkgs  []*packages.Package // the initial packages
	SSA   []*ssa.Package      // ssa packages of the initial packages
	Funcs map[*ssa.Function]bool
}

// OverlayFile, if set, names a `go build -overlay` style JSON file ({"Replace": {path: replacement}});
// the translators then read the replaced sources (used for mutation experiments only).
var OverlayFile = os.Getenv("VERIF_OVERLAY")

func loadOverlay() (map[string][]byte, error) {
	if OverlayFile == "" {
		return nil, nil
	}
	data, err := os.ReadFile(OverlayFile)
	if err != nil {
		return nil, err
	}
	var ov struct{ Replace map[string]string }
	if err := json.Unmarshal(data, &ov); err != nil {
		return nil, err
	}
	out := map[string][]byte{}
	for p, q := range ov.Replace {
		b, err := os.ReadFile(q)
		if err != nil {
			return nil, err
		}
		out[p] = b
	}
	return out, nil
}

func Load(dir string, patterns ...string) (*Loaded, error) {
	overlay, err := loadOverlay()
	if err != nil {
		return nil, err
	}
	cfg := &packages.Config{
		Overlay: overlay,
		Mode: packages.NeedName | packages.NeedFiles | packages.NeedCompiledGoFiles | packages.NeedImports |
			packages.NeedDeps | packages.NeedTypes | packages.NeedSyntax | packages.NeedTypesInfo |
			packages.NeedTypesSizes | packages.NeedModule,
		Dir:   dir,
		Tests: false,
		Env:   append(os.Environ(), "GOFLAGS=-mod=mod", "GOPROXY=off", "GOSUMDB=off", "GOTOOLCHAIN=local"),
	}
	pkgs, err := packages.Load(cfg, patterns...)
	if err != nil {
		return nil, err
	}
	nerr := 0
	packages.Visit(pkgs, nil, func(p *packages.Package) {
		for _, e := range p.Errors {
			fmt.Fprintln(os.Stderr, "load error:", p.PkgPath, e)
			nerr++
		}
	})
	if nerr > 0 {
		return nil, fmt.Errorf("%d package load errors", nerr)
	}
	prog, spkgs := ssautil.AllPackages(pkgs, ssa.InstantiateGenerics)
	prog.Build()
	l := &Loaded{Prog: prog, Pkgs: pkgs, Funcs: ssautil.AllFunctions(prog)}
	for _, sp := range spkgs {
		if sp != nil {
			l.SSA = append(l.SSA, sp)
		}
	}
	return l, nil
}

// InModule reports whether fn belongs to a package of the golua module.
func InModule(fn *ssa.Function) bool {
	p := FnPkgPath(fn)
	return p == Module || strings.HasPrefix(p, Module+"/")
}

func FnPkgPath(fn *ssa.Function) string {
	for fn.Parent() != nil {
		fn = fn.Parent()
	}
	if fn.Pkg != nil {
		return fn.Pkg.Pkg.Path()
	}
	if o := fn.Object(); o != nil && o.Pkg() != nil {
		return o.Pkg().Path()
	}
	if fn.Origin() != nil {
		return FnPkgPath(fn.Origin())
	}
	return ""
}

// SortedFuncs returns the functions of the program in a deterministic order.
func (l *Loaded) SortedFuncs() []*ssa.Function {
	fs := make([]*ssa.Function, 0, len(l.Funcs))
	for f := range l.Funcs {
		fs = append(fs, f)
	}
	sort.Slice(fs, func(i, j int) bool {
		a, b := fs[i].String(), fs[j].String()
		if a != b {
			return a < b
		}
		return fs[i].Pos() < fs[j].Pos()
	})
	return fs
}

// RuntimeName converts an SSA function name to the name the Go linker gives it
// (what runtime.FuncForPC reports): anonymous functions f$1 -> f.func1, f$1$2 -> f.func1.2.
func RuntimeName(fn *ssa.Function) string {
	var chain []*ssa.Function
	for f := fn; f != nil; f = f.Parent() {
		chain = append([]*ssa.Function{f}, chain...)
	}
	top := chain[0]
	name := top.String() // e.g. github.com/x/y.f or (*github.com/x/y.T).m
	if top.Signature.Recv() != nil {
		// (*pkg.T).m -> pkg.(*T).m ; (pkg.T).m -> pkg.T.m
		s := name
		if strings.HasPrefix(s, "(") {
			i := strings.Index(s, ").")
			recv, meth := s[1:i], s[i+2:]
			star := strings.HasPrefix(recv, "*")
			recv = strings.TrimPrefix(recv, "*")
			j := strings.LastIndex(recv, ".")
			if star {
				name = recv[:j] + ".(*" + recv[j+1:] + ")." + meth
			} else {
				name = recv[:j] + "." + recv[j+1:] + "." + meth
			}
		}
	}
	for i := 1; i < len(chain); i++ {
		n := chain[i].Name() // parent$k
		k := n[strings.LastIndex(n, "$")+1:]
		if i == 1 {
			name += ".func" + k
		} else {
			name += "." + k
		}
	}
	return name
}

// CoqString renders s as a Coq string literal.
func CoqString(s string) string {
	return "\"" + strings.ReplaceAll(s, "\"", "\"\"") + "\""
}
