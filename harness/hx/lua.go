package hx

// Engine "lua": runs Lua chunks on the real runtime (fresh Runtime + full
// standard library per case) and prints the observable outcome in canonical
// form: the event trace (values given to the host callback `emit`), results,
// error, what was printed, and the status/usage of the enclosing context when
// the case asks for limits.
//
//   input : <id> <hex source> [cpu=N] [mem=N] [flags=N] [args=v,v,..] [mode=t|b|bt] [chunk=name]
//   output: <id> <status> T:<ev>;<ev>.. R:<v>,<v>.. E:<hexmsg> O:<hex stdout> X:<ctx status>,<used cpu>,<used mem> A:<go heap bytes allocated, with stats=1> W:<wall-clock microseconds, with wall=1>
//   status: ok | compile_error | error | killed | gopanic

import (
	"bufio"
	"bytes"
	"encoding/hex"
	"fmt"
	"math"
	goruntime "runtime"
	"strconv"
	"strings"
	"time"

	"github.com/arnodel/golua/lib"
	rt "github.com/arnodel/golua/runtime"
)

type Canon struct {
	ids map[interface{}]int
}

func (c *Canon) id(k interface{}) int {
	if n, ok := c.ids[k]; ok {
		return n
	}
	n := len(c.ids) + 1
	c.ids[k] = n
	return n
}

func (c *Canon) Val(v rt.Value) string {
	switch v.Type() {
	case rt.NilType:
		return "n"
	case rt.BoolType:
		if v.AsBool() {
			return "b1"
		}
		return "b0"
	case rt.IntType:
		return "i" + strconv.FormatInt(v.AsInt(), 10)
	case rt.FloatType:
		f := v.AsFloat()
		if f != f {
			return "fnan"
		}
		return fmt.Sprintf("f%016x", math.Float64bits(f))
	case rt.StringType:
		s := v.AsString()
		if s == "" {
			return "s-"
		}
		return "s" + hex.EncodeToString([]byte(s))
	case rt.TableType:
		return "t" + strconv.Itoa(c.id(v.AsTable()))
	case rt.FunctionType:
		return "c" + strconv.Itoa(c.id(v.Interface()))
	case rt.ThreadType:
		return "h" + strconv.Itoa(c.id(v.AsThread()))
	case rt.UserDataType:
		return "u" + strconv.Itoa(c.id(v.AsUserData()))
	}
	return "?" + v.TypeName()
}

func (c *Canon) Vals(vs []rt.Value) string {
	if len(vs) == 0 {
		return "-"
	}
	parts := make([]string, len(vs))
	for i, v := range vs {
		parts[i] = c.Val(v)
	}
	return strings.Join(parts, ",")
}

func ParseValue(s string) rt.Value {
	switch {
	case s == "n":
		return rt.NilValue
	case s == "b0":
		return rt.BoolValue(false)
	case s == "b1":
		return rt.BoolValue(true)
	case s == "fnan":
		return rt.FloatValue(math.NaN())
	case s[0] == 'i':
		n, _ := strconv.ParseInt(s[1:], 10, 64)
		return rt.IntValue(n)
	case s[0] == 'f':
		b, _ := strconv.ParseUint(s[1:], 16, 64)
		return rt.FloatValue(math.Float64frombits(b))
	case s[0] == 's':
		if s == "s-" {
			return rt.StringValue("")
		}
		b, _ := hex.DecodeString(s[1:])
		return rt.StringValue(string(b))
	}
	panic("bad value " + s)
}

type LuaCase struct {
	Id      string
	Src     []byte
	Cpu     uint64
	Mem     uint64
	Flags   uint64
	Args    []rt.Value
	Mode    string
	Chunk   string
	Limited bool
	Stats   bool
	// HeapFn (heap=1): the program gets heapnow(), which runs the Go collector and returns MemStats.HeapAlloc
	HeapFn bool
	// WallOut: append W:<wall-clock microseconds, with wall=1> to the result line (wall=1); off by default so that result
	// lines of two runs of the same case stay identical
	WallOut bool
	// Setup, if not nil, is called on the fresh runtime before the chunk is loaded
	Setup func(r *rt.Runtime)
}

func ParseLuaCase(line string) (lc LuaCase, ok bool) {
	f := strings.Fields(line)
	if len(f) < 2 {
		return lc, false
	}
	lc.Id = f[0]
	if f[1] != "-" {
		b, err := hex.DecodeString(f[1])
		if err != nil {
			return lc, false
		}
		lc.Src = b
	}
	lc.Mode = "t"
	lc.Chunk = "chunk"
	for _, kv := range f[2:] {
		i := strings.IndexByte(kv, '=')
		if i < 0 {
			continue
		}
		k, v := kv[:i], kv[i+1:]
		switch k {
		case "cpu":
			lc.Cpu, _ = strconv.ParseUint(v, 10, 64)
			lc.Limited = true
		case "mem":
			lc.Mem, _ = strconv.ParseUint(v, 10, 64)
			lc.Limited = true
		case "flags":
			lc.Flags, _ = strconv.ParseUint(v, 10, 64)
			lc.Limited = true
		case "args":
			if v != "-" {
				for _, a := range strings.Split(v, ",") {
					lc.Args = append(lc.Args, ParseValue(a))
				}
			}
		case "stats":
			lc.Stats = v == "1"
		case "wall":
			lc.WallOut = v == "1"
		case "heap":
			lc.HeapFn = v == "1"
		case "mode":
			lc.Mode = v
		case "chunk":
			lc.Chunk = v
		}
	}
	return lc, true
}

type LuaResult struct {
	Status  string
	Trace   []string
	Ret     string
	Errmsg  string
	Out     string
	Ctx     string
	Alloc   uint64 // growth of MemStats.HeapSys while loading+running the chunk (Stats only)
	Wall    int64  // wall-clock microseconds spent loading+running the chunk (only with wall=1)
	WallSet bool
}

func HexOrDash(b []byte) string {
	if len(b) == 0 {
		return "-"
	}
	if len(b) > 4096 {
		b = b[:4096]
	}
	return hex.EncodeToString(b)
}

func RunLuaCase(lc LuaCase) (res LuaResult) {
	var stdout bytes.Buffer
	r := rt.New(&stdout)
	cleanup := lib.LoadAll(r)
	defer cleanup()
	if lc.Setup != nil {
		lc.Setup(r)
	}
	cn := &Canon{ids: map[interface{}]int{}}
	res.Ret, res.Errmsg, res.Ctx = "-", "-", "-"
	emit := func(t *rt.Thread, c *rt.GoCont) (rt.Cont, error) {
		all := append([]rt.Value{}, c.Etc()...)
		res.Trace = append(res.Trace, cn.Vals(all))
		return c.PushingNext(t.Runtime, all...), nil
	}
	f := r.SetEnvGoFunc(r.GlobalEnv(), "emit", emit, 0, true)
	rt.SolemnlyDeclareCompliance(rt.ComplyCpuSafe|rt.ComplyMemSafe|rt.ComplyTimeSafe|rt.ComplyIoSafe, f)
	if lc.HeapFn {
		hf := r.SetEnvGoFunc(r.GlobalEnv(), "heapnow", func(t *rt.Thread, c *rt.GoCont) (rt.Cont, error) {
			var ms goruntime.MemStats
			goruntime.GC()
			goruntime.GC()
			goruntime.ReadMemStats(&ms)
			return c.PushingNext1(t.Runtime, rt.IntValue(int64(ms.HeapAlloc))), nil
		}, 0, false)
		rt.SolemnlyDeclareCompliance(rt.ComplyCpuSafe|rt.ComplyMemSafe|rt.ComplyTimeSafe|rt.ComplyIoSafe, hf)
	}
	defer func() {
		if x := recover(); x != nil {
			res.Status = "gopanic"
			res.Errmsg = HexOrDash([]byte(fmt.Sprint(x)))
		}
		res.Out = HexOrDash(stdout.Bytes())
	}()
	t := r.MainThread()
	w0 := time.Now()
	if lc.WallOut {
		defer func() { res.Wall, res.WallSet = time.Since(w0).Microseconds(), true }()
	}
	if lc.Stats {
		var ms0 goruntime.MemStats
		goruntime.GC()
		goruntime.ReadMemStats(&ms0)
		defer func() {
			var ms1 goruntime.MemStats
			goruntime.ReadMemStats(&ms1)
			// growth of the heap memory obtained from the OS: an (over-)estimate of the
			// peak live heap during the case that garbage-only loops do not inflate
			if ms1.HeapSys > ms0.HeapSys {
				res.Alloc = ms1.HeapSys - ms0.HeapSys
			}
		}()
	}
	clos, err := t.LoadFromSourceOrCode(lc.Chunk, lc.Src, lc.Mode, rt.TableValue(r.GlobalEnv()), false)
	if err != nil {
		res.Status = "compile_error"
		res.Errmsg = HexOrDash([]byte(err.Error()))
		return
	}
	term := rt.NewTerminationWith(nil, 0, true)
	var cerr error
	if lc.Limited {
		var ctx rt.RuntimeContext
		ctx, cerr = t.CallContext(rt.RuntimeContextDef{
			HardLimits:    rt.RuntimeResources{Cpu: lc.Cpu, Memory: lc.Mem},
			RequiredFlags: rt.ComplianceFlags(lc.Flags),
		}, func() error {
			return rt.Call(t, rt.FunctionValue(clos), lc.Args, term)
		})
		u := ctx.UsedResources()
		res.Ctx = fmt.Sprintf("%s,%d,%d", ctx.Status().String(), u.Cpu, u.Memory)
		if ctx.Status() == rt.StatusKilled {
			res.Status = "killed"
			if cerr != nil {
				res.Errmsg = HexOrDash([]byte(cerr.Error()))
			}
			return
		}
	} else {
		cerr = rt.Call(t, rt.FunctionValue(clos), lc.Args, term)
	}
	if cerr != nil {
		res.Status = "error"
		ev := rt.ErrorValue(cerr)
		if s, ok := ev.TryString(); ok {
			res.Errmsg = HexOrDash([]byte(s))
			if s == "" {
				res.Errmsg = "-"
			}
			res.Ret = "s"
		} else {
			res.Ret = cn.Val(ev)
		}
		return
	}
	res.Status = "ok"
	res.Ret = cn.Vals(term.Etc())
	return
}

// FormatLuaResult renders a result as one protocol line.
func FormatLuaResult(id string, res LuaResult) string {
	tr := "-"
	if len(res.Trace) > 0 {
		tr = strings.Join(res.Trace, ";")
	}
	line := fmt.Sprintf("%s %s T:%s R:%s E:%s O:%s X:%s A:%d", id, res.Status, tr, res.Ret, res.Errmsg, res.Out, res.Ctx, res.Alloc)
	if res.WallSet {
		line += fmt.Sprintf(" W:%d", res.Wall)
	}
	return line
}

// LuaEngine is the stdin/stdout loop of the "lua" engine.
// ExtraSetup, if not nil, is applied to the fresh runtime of every case of the "lua" engine (the clock build
// uses it to give programs a setclock function).
var ExtraSetup func(r *rt.Runtime)

func LuaEngine(in *bufio.Scanner, out *bufio.Writer, args []string) {
	for in.Scan() {
		lc, ok := ParseLuaCase(in.Text())
		if !ok {
			continue
		}
		if lc.Setup == nil {
			lc.Setup = ExtraSetup
		}
		res := RunLuaCase(lc)
		fmt.Fprintln(out, FormatLuaResult(lc.Id, res))
		out.Flush()
	}
}
