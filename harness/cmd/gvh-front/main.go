// gvh-front — Go side of the C12 (front end) correspondence.
//
// Modes (first argument):
//
//	exp    input  <id> <hex source>     parsing.ParseExp on scanner.New
//	chunk  input  <id> <hex source>     parsing.ParseChunk
//	       output <id> <ok|err|gopanic> @@ <tokens> @@ <ast s-expression | line col hexmsg>
//	       tokens: every token the scanner yields for the source (own scanner
//	       instance), as  kind[:payload]@line.column ; payloads: numerals the literal
//	       text, strings hex of the decoded value, names the text.
//	       ast: public ast types dumped as s-expressions; NewBinOp's
//	       same-precedence list merging is undone by a left fold.
//	file   input <id> <hex source>; output <id> ok - | err <hexmsg>: Runtime.LoadFromSourceOrCode(stripComment=true)
//	lua    the shared hx.LuaEngine protocol (load + run on a fresh runtime)
package main

import (
	"bufio"
	"encoding/hex"
	"fmt"
	"math"
	"os"
	"strings"

	"gvharness/hx"

	"github.com/arnodel/golua/ast"
	"github.com/arnodel/golua/ops"
	"github.com/arnodel/golua/parsing"
	rt "github.com/arnodel/golua/runtime"
	"github.com/arnodel/golua/scanner"
	"github.com/arnodel/golua/token"
)

var tokNames = map[token.Type]string{
	token.KwBreak: "break", token.KwGoto: "goto", token.KwDo: "do", token.KwWhile: "while", token.KwEnd: "end",
	token.KwRepeat: "repeat", token.KwUntil: "until", token.KwThen: "then", token.KwElse: "else", token.KwElseIf: "elseif",
	token.KwIf: "if", token.KwFor: "for", token.KwIn: "in", token.KwFunction: "function", token.KwLocal: "local",
	token.KwNot: "not", token.KwNil: "nil", token.KwTrue: "true", token.KwFalse: "false", token.KwReturn: "return",
	token.SgEtc: "...", token.SgOpenSquareBkt: "[", token.SgCloseSquareBkt: "]", token.SgOpenBkt: "(", token.SgCloseBkt: ")",
	token.SgOpenBrace: "{", token.SgCloseBrace: "}", token.SgSemicolon: ";", token.SgComma: ",", token.SgDot: ".",
	token.SgColon: ":", token.SgDoubleColon: "::", token.SgAssign: "=", token.SgHash: "#",
	token.SgMinus: "-", token.SgPlus: "+", token.SgStar: "*", token.SgSlash: "/", token.SgSlashSlash: "//", token.SgPct: "%",
	token.SgPipe: "|", token.SgTilde: "~", token.SgAmpersand: "&", token.SgHat: "^", token.SgShiftRight: ">>",
	token.SgShiftLeft: "<<", token.SgEqual: "==", token.SgNotEqual: "~=", token.SgLess: "<", token.SgLessEqual: "<=",
	token.SgGreater: ">", token.SgGreaterEqual: ">=", token.SgConcat: "..", token.KwAnd: "and", token.KwOr: "or",
}

var binNames = map[ops.Op]string{
	ops.OpOr: "or", ops.OpAnd: "and", ops.OpLt: "lt", ops.OpLeq: "le", ops.OpGt: "gt", ops.OpGeq: "ge", ops.OpEq: "eq",
	ops.OpNeq: "ne", ops.OpBitOr: "bor", ops.OpBitXor: "bxor", ops.OpBitAnd: "band", ops.OpShiftL: "shl", ops.OpShiftR: "shr",
	ops.OpConcat: "concat", ops.OpAdd: "add", ops.OpSub: "sub", ops.OpMul: "mul", ops.OpDiv: "div", ops.OpFloorDiv: "idiv",
	ops.OpMod: "mod", ops.OpPow: "pow",
}

var unNames = map[ops.Op]string{ops.OpNeg: "neg", ops.OpNot: "not", ops.OpLen: "len", ops.OpBitNot: "bnot", ops.OpId: "id"}

func hexs(b []byte) string {
	if len(b) == 0 {
		return "-"
	}
	return hex.EncodeToString(b)
}

func tokString(t *token.Token) (s string) {
	defer func() {
		if r := recover(); r != nil {
			s = fmt.Sprintf("panic:%s@%d.%d", hexs([]byte(fmt.Sprint(r))), t.Line, t.Column)
		}
	}()
	switch t.Type {
	case token.EOF:
		return fmt.Sprintf("eof@%d.%d", t.Line, t.Column)
	case token.INVALID:
		return fmt.Sprintf("invalid:%s@%d.%d", hexs(t.Lit), t.Line, t.Column)
	case token.UNFINISHED:
		return fmt.Sprintf("unfinished:%s@%d.%d", hexs(t.Lit), t.Line, t.Column)
	case token.NUMDEC, token.NUMHEX:
		return fmt.Sprintf("num:%s@%d.%d", string(t.Lit), t.Line, t.Column)
	case token.IDENT:
		return fmt.Sprintf("name:%s@%d.%d", string(t.Lit), t.Line, t.Column)
	case token.STRING:
		v, err := ast.NewString(t)
		if err != nil {
			return fmt.Sprintf("strerr:%s@%d.%d", hexs([]byte(err.Error())), t.Line, t.Column)
		}
		return fmt.Sprintf("str:%s@%d.%d", hexs(v.Val), t.Line, t.Column)
	case token.LONGSTRING:
		v := ast.NewLongString(t)
		return fmt.Sprintf("lstr:%s@%d.%d", hexs(v.Val), t.Line, t.Column)
	}
	if n, ok := tokNames[t.Type]; ok {
		return fmt.Sprintf("%s@%d.%d", n, t.Line, t.Column)
	}
	return fmt.Sprintf("tok%d@%d.%d", int(t.Type), t.Line, t.Column)
}

func scanAll(src []byte) string {
	sc := scanner.New("chunk", src)
	var out []string
	for i := 0; i < 1000000; i++ {
		t := sc.Scan()
		if t == nil {
			break
		}
		out = append(out, tokString(t))
		if t.Type == token.EOF || t.Type == token.INVALID || t.Type == token.UNFINISHED {
			break
		}
	}
	return strings.Join(out, " ")
}

type dumper struct {
	sb strings.Builder
}

func (d *dumper) w(format string, a ...interface{}) { fmt.Fprintf(&d.sb, format, a...) }

func (d *dumper) exps(es []ast.ExpNode) {
	for _, e := range es {
		d.w(" ")
		d.exp(e)
	}
}

func (d *dumper) call(f *ast.BFunctionCall) {
	d.w("(call ")
	d.exp(f.Target)
	if f.Method.Val != "" {
		d.w(" %s 0", f.Method.Val)
	} else {
		d.w(" - 0")
	}
	d.exps(f.Args)
	d.w(")")
}

func (d *dumper) exp(e ast.ExpNode) {
	switch x := e.(type) {
	case ast.Nil:
		d.w("nil")
	case ast.Bool:
		if x.Val {
			d.w("true")
		} else {
			d.w("false")
		}
	case ast.Int:
		d.w("(int %d)", x.Val)
	case ast.Float:
		d.w("(flt %016x)", math.Float64bits(x.Val))
	case ast.String:
		d.w("(str %s)", hexs(x.Val))
	case ast.Etc:
		d.w("etc")
	case ast.Name:
		d.w("(name %s)", x.Val)
	case ast.IndexExp:
		d.w("(idx ")
		d.exp(x.Coll)
		d.w(" ")
		d.exp(x.Idx)
		d.w(")")
	case ast.FunctionCall:
		d.call(x.BFunctionCall)
	case *ast.BFunctionCall:
		d.w("(paren ")
		d.call(x)
		d.w(")")
	case ast.BFunctionCall:
		d.w("(paren ")
		d.call(&x)
		d.w(")")
	case ast.TableConstructor:
		d.w("(tab 0")
		for _, f := range x.Fields {
			if _, nokey := f.Key.(ast.NoTableKey); nokey {
				d.w(" (pos ")
			} else {
				d.w(" (key ")
				d.exp(f.Key)
				d.w(" ")
			}
			d.exp(f.Value)
			d.w(" 0)")
		}
		d.w(")")
	case *ast.UnOp:
		if _, isEtc := x.Operand.(ast.Etc); isEtc && x.Op == ops.OpId {
			// (...) : parentheses kept around the multi-valued '...'
			d.w("(paren etc)")
			return
		}
		d.w("(un %s ", unNames[x.Op])
		d.exp(x.Operand)
		d.w(")")
	case ast.UnOp:
		d.w("(un %s ", unNames[x.Op])
		d.exp(x.Operand)
		d.w(")")
	case *ast.BinOp:
		d.binop(x)
	case ast.BinOp:
		d.binop(&x)
	case ast.Function:
		d.w("(function (")
		for i, p := range x.Params {
			if i > 0 {
				d.w(" ")
			}
			d.w("%s", p.Val)
		}
		if x.HasDots {
			if len(x.Params) > 0 {
				d.w(" ")
			}
			d.w("...")
		}
		d.w(") ")
		d.block(x.Body)
		d.w(")")
	default:
		d.w("(unknown %T)", e)
	}
}

// undo ast.NewBinOp's merging: left op1 e1 op2 e2 … is ((left op1 e1) op2 e2) …
func (d *dumper) binop(b *ast.BinOp) {
	for i := len(b.Right) - 1; i >= 0; i-- {
		r := b.Right[i]
		if r.Op.Type() != b.OpType {
			d.w("(badoptype %d %d) ", r.Op, b.OpType)
		}
		d.w("(bin %s ", binNames[r.Op])
	}
	d.exp(b.Left)
	for _, r := range b.Right {
		d.w(" ")
		d.exp(r.Operand)
		d.w(")")
	}
}

func (d *dumper) block(b ast.BlockStat) {
	d.w("(block")
	for _, s := range b.Stats {
		d.w(" ")
		d.stat(s)
	}
	if b.Return != nil {
		d.w(" (return")
		d.exps(b.Return)
		d.w(")")
	}
	d.w(")")
}

func (d *dumper) stat(s ast.Stat) {
	switch x := s.(type) {
	case ast.EmptyStat:
		d.w("(empty)")
	case ast.BreakStat:
		d.w("(break)")
	case ast.GotoStat:
		d.w("(goto %s)", x.Label.Val)
	case ast.LabelStat:
		d.w("(label %s)", x.Name.Val)
	case ast.BlockStat:
		d.w("(do ")
		d.block(x)
		d.w(")")
	case ast.WhileStat:
		d.w("(while ")
		d.exp(x.Cond)
		d.w(" ")
		d.block(x.Body)
		d.w(")")
	case ast.RepeatStat:
		d.w("(repeat ")
		d.block(x.Body)
		d.w(" ")
		d.exp(x.Cond)
		d.w(")")
	case ast.IfStat:
		d.w("(if ")
		d.exp(x.If.Cond)
		d.w(" ")
		d.block(x.If.Body)
		for _, c := range x.ElseIfs {
			d.w(" (elseif ")
			d.exp(c.Cond)
			d.w(" ")
			d.block(c.Body)
			d.w(")")
		}
		if x.Else != nil {
			d.w(" (else ")
			d.block(*x.Else)
			d.w(")")
		}
		d.w(")")
	case ast.ForStat:
		d.w("(for %s ", x.Var.Val)
		d.exp(x.Start)
		d.w(" ")
		d.exp(x.Stop)
		d.w(" ")
		d.exp(x.Step)
		d.w(" ")
		d.block(x.Body)
		d.w(")")
	case *ast.ForStat:
		d.stat(*x)
	case ast.ForInStat:
		d.w("(forin (")
		for i, n := range x.Vars {
			if i > 0 {
				d.w(" ")
			}
			d.w("%s", n.Val)
		}
		d.w(") (")
		for i, e := range x.Params {
			if i > 0 {
				d.w(" ")
			}
			d.exp(e)
		}
		d.w(") ")
		d.block(x.Body)
		d.w(")")
	case *ast.ForInStat:
		d.stat(*x)
	case ast.LocalFunctionStat:
		d.w("(localfunc %s ", x.Name.Val)
		d.exp(x.Function)
		d.w(")")
	case ast.LocalStat:
		d.w("(local (")
		for i, n := range x.NameAttribs {
			if i > 0 {
				d.w(" ")
			}
			d.w("%s:%d", n.Name.Val, int(n.Attrib))
		}
		d.w(")")
		d.exps(x.Values)
		d.w(")")
	case ast.AssignStat:
		d.w("(assign (")
		for i, v := range x.Dest {
			if i > 0 {
				d.w(" ")
			}
			d.exp(v)
		}
		d.w(")")
		d.exps(x.Src)
		d.w(")")
	case ast.FunctionCall:
		d.w("(callstat ")
		d.call(x.BFunctionCall)
		d.w(")")
	default:
		d.w("(unknownstat %T)", s)
	}
}

func parseOne(mode string, src []byte) (status, body string) {
	defer func() {
		if r := recover(); r != nil {
			status, body = "gopanic", hexs([]byte(fmt.Sprint(r)))
		}
	}()
	d := &dumper{}
	var err error
	if mode == "exp" {
		var e ast.ExpNode
		e, err = parsing.ParseExp(scanner.New("chunk", src))
		if err == nil {
			d.exp(e)
		}
	} else {
		var b ast.BlockStat
		b, err = parsing.ParseChunk(scanner.New("chunk", src))
		if err == nil {
			d.block(b)
		}
	}
	if err != nil {
		if pe, ok := err.(parsing.Error); ok {
			return "err", fmt.Sprintf("%d %d %s", pe.Got.Line, pe.Got.Column, hexs([]byte(pe.Error())))
		}
		return "err", fmt.Sprintf("0 0 %s", hexs([]byte(err.Error())))
	}
	return "ok", d.sb.String()
}

func loadAsFile(src []byte) (res string) {
	defer func() {
		if r := recover(); r != nil {
			res = "gopanic " + hexs([]byte(fmt.Sprint(r)))
		}
	}()
	r := rt.New(nil)
	_, err := r.LoadFromSourceOrCode("chunk", src, "t", rt.TableValue(r.GlobalEnv()), true)
	if err != nil {
		return "err " + hexs([]byte(err.Error()))
	}
	return "ok -"
}

func main() {
	if len(os.Args) < 2 {
		fmt.Fprintln(os.Stderr, "usage: gvh-front exp|chunk|lua")
		os.Exit(2)
	}
	in := bufio.NewScanner(os.Stdin)
	in.Buffer(make([]byte, 1<<20), 1<<28)
	out := bufio.NewWriterSize(os.Stdout, 1<<16)
	defer out.Flush()
	mode := os.Args[1]
	if mode == "lua" {
		hx.LuaEngine(in, out, os.Args[2:])
		return
	}
	if mode == "file" {
		// what loadfile / dofile / require / the command line do with the bytes of a file:
		// Runtime.LoadFromSourceOrCode with stripComment = true (first line '#…' skipped)
		for in.Scan() {
			f := strings.Fields(in.Text())
			if len(f) < 1 {
				continue
			}
			var src []byte
			if len(f) > 1 && f[1] != "-" {
				src, _ = hex.DecodeString(f[1])
			}
			fmt.Fprintf(out, "%s %s\n", f[0], loadAsFile(src))
			out.Flush()
		}
		return
	}
	for in.Scan() {
		line := strings.TrimSpace(in.Text())
		if line == "" {
			continue
		}
		f := strings.Fields(line)
		id := f[0]
		var src []byte
		if len(f) > 1 && f[1] != "-" {
			src, _ = hex.DecodeString(f[1])
		}
		toks := func() (s string) {
			defer func() {
				if r := recover(); r != nil {
					s = "scanpanic:" + hexs([]byte(fmt.Sprint(r)))
				}
			}()
			return scanAll(src)
		}()
		st, body := parseOne(mode, src)
		fmt.Fprintf(out, "%s %s @@ %s @@ %s\n", id, st, toks, body)
		out.Flush()
	}
}
