// gvh-pool — Go side of the C14 hook-level correspondence: drives the real
// valuePool / cellPool / luaContPool / goContPool through the verif hooks.
//
//   gvh-pool reg  : <id> <v|c> <size> <maxAge> op;op;..   op = G <sz> | R <j> (release the (j mod n)-th owned slice)
//       slice ids: the k-th distinct slice ever returned by G gets id k (1-based; zero-length
//       slices have no identity and get id 0); before R the harness fills the slice with non-zero
//       values (a client that used its registers)
//       output per op: G -> g<class>:<id>:<len>:<z>  class = f fresh | r reused | n nil | p panic
//                           z = 1 iff every element is zero
//                      R -> r (or rp on panic)      then  S:<gen>,<exp:len ...>
//   gvh-pool cont : <id> <l|g> op;..   op = G | R <object id>
//       output per op: G -> g<n|r>:<id>:<z> ; R -> r ; then N:<next>
package main

import (
	"bufio"
	"encoding/hex"
	"fmt"
	"os"
	"strconv"
	"strings"
	"unsafe"

	"github.com/arnodel/golua/lib"
	rt "github.com/arnodel/golua/runtime"
)

func hx(s string) int {
	n, err := strconv.ParseInt(s, 16, 64)
	if err != nil {
		panic("bad hex " + s)
	}
	return int(n)
}

func regEngine(in *bufio.Scanner, out *bufio.Writer) {
	for in.Scan() {
		f := strings.SplitN(in.Text(), " ", 5)
		if len(f) < 5 {
			continue
		}
		id, kind, size, age := f[0], f[1], uint(hx(f[2])), uint(hx(f[3]))
		var vp *rt.VerifValuePool
		var cp *rt.VerifCellPool
		if kind == "v" {
			vp = rt.VerifNewValuePool(size, age)
		} else {
			cp = rt.VerifNewCellPool(size, age)
		}
		ids := map[unsafe.Pointer]int{}
		vslices := map[int][]rt.Value{}
		cslices := map[int][]rt.Cell{}
		nextID := 0
		var owned []int // slices the client currently owns, in order of acquisition (client discipline)
		var res []string
		for _, op := range strings.Split(f[4], ";") {
			t := strings.Fields(op)
			if len(t) == 0 {
				continue
			}
			func() {
				defer func() {
					if x := recover(); x != nil {
						if t[0] == "G" {
							res = append(res, "gp:0:0:0")
						} else {
							res = append(res, "rp")
						}
					}
				}()
				switch t[0] {
				case "G":
					sz := hx(t[1])
					var ptr unsafe.Pointer
					var n int
					isNil := false
					zero := true
					if kind == "v" {
						s := vp.Get(sz)
						n, isNil = len(s), s == nil
						if n > 0 {
							ptr = unsafe.Pointer(&s[0])
						}
						for _, x := range s {
							if x != (rt.Value{}) {
								zero = false
							}
						}
						if n > 0 {
							if _, ok := ids[ptr]; !ok {
								nextID++
								ids[ptr] = nextID
								vslices[nextID] = s
								owned = append(owned, nextID)
								res = append(res, fmt.Sprintf("gf:%x:%x:%d", nextID, n, b2i(zero)))
								return
							}
						}
					} else {
						s := cp.Get(sz)
						n, isNil = len(s), s == nil
						if n > 0 {
							ptr = unsafe.Pointer(&s[0])
						}
						for _, x := range s {
							if !rt.VerifCellIsZero(x) {
								zero = false
							}
						}
						if n > 0 {
							if _, ok := ids[ptr]; !ok {
								nextID++
								ids[ptr] = nextID
								cslices[nextID] = s
								owned = append(owned, nextID)
								res = append(res, fmt.Sprintf("gf:%x:%x:%d", nextID, n, b2i(zero)))
								return
							}
						}
					}
					switch {
					case n > 0:
						owned = append(owned, ids[ptr])
						res = append(res, fmt.Sprintf("gr:%x:%x:%d", ids[ptr], n, b2i(zero)))
					case isNil:
						res = append(res, "gn:0:0:1")
					default:
						res = append(res, "gf:0:0:1")
					}
				case "R":
					// R j releases the (j mod n)-th slice the client owns; with nothing owned, an empty slice
					k := -1
					if len(owned) > 0 {
						j := hx(t[1]) % len(owned)
						k = owned[j]
						owned = append(owned[:j], owned[j+1:]...)
					}
					if kind == "v" {
						s, ok := vslices[k]
						if !ok {
							s = []rt.Value{} // identity-less empty slice
						}
						for i := range s {
							s[i] = rt.IntValue(int64(i + 1))
						}
						vp.Release(s)
					} else {
						s, ok := cslices[k]
						if !ok {
							s = []rt.Cell{}
						}
						for i := range s {
							s[i] = rt.VerifDirtyCell()
						}
						cp.Release(s)
					}
					res = append(res, "r")
				}
			}()
		}
		var gen uint
		var exps []uint
		var lens []int
		if kind == "v" {
			gen, exps, lens = vp.State()
		} else {
			gen, exps, lens = cp.State()
		}
		st := make([]string, len(exps))
		for i := range exps {
			l := "n"
			if lens[i] >= 0 {
				l = fmt.Sprintf("%x", lens[i])
			}
			st[i] = fmt.Sprintf("%x:%s", exps[i], l)
		}
		fmt.Fprintf(out, "%s %s S:%x,%s\n", id, strings.Join(res, "/"), gen, strings.Join(st, " "))
		out.Flush()
	}
}

func b2i(b bool) int {
	if b {
		return 1
	}
	return 0
}

func contEngine(in *bufio.Scanner, out *bufio.Writer) {
	for in.Scan() {
		f := strings.SplitN(in.Text(), " ", 3)
		if len(f) < 3 {
			continue
		}
		id, kind := f[0], f[1]
		lp, gp := rt.VerifNewLuaContPool(), rt.VerifNewGoContPool()
		lids, gids := map[*rt.LuaCont]int{}, map[*rt.GoCont]int{}
		lobj, gobj := map[int]*rt.LuaCont{}, map[int]*rt.GoCont{}
		nextID := 0
		var owned []int
		var res []string
		for _, op := range strings.Split(f[2], ";") {
			t := strings.Fields(op)
			if len(t) == 0 {
				continue
			}
			switch t[0] {
			case "G":
				if kind == "l" {
					c := lp.Get()
					z := b2i(rt.VerifLuaContIsZero(c))
					if k, ok := lids[c]; ok {
						owned = append(owned, k)
						res = append(res, fmt.Sprintf("gr:%x:%d", k, z))
					} else {
						nextID++
						lids[c], lobj[nextID] = nextID, c
						owned = append(owned, nextID)
						res = append(res, fmt.Sprintf("gn:%x:%d", nextID, z))
					}
					rt.VerifLuaContDirty(c)
				} else {
					c := gp.Get()
					z := b2i(rt.VerifGoContIsZero(c))
					if k, ok := gids[c]; ok {
						owned = append(owned, k)
						res = append(res, fmt.Sprintf("gr:%x:%d", k, z))
					} else {
						nextID++
						gids[c], gobj[nextID] = nextID, c
						owned = append(owned, nextID)
						res = append(res, fmt.Sprintf("gn:%x:%d", nextID, z))
					}
					rt.VerifGoContDirty(c)
				}
			case "R":
				// R j releases the (j mod n)-th object the client owns; with nothing owned, a brand-new object
				k := -1
				if len(owned) > 0 {
					j := hx(t[1]) % len(owned)
					k = owned[j]
					owned = append(owned[:j], owned[j+1:]...)
				}
				if kind == "l" {
					c, ok := lobj[k]
					if !ok {
						nextID++
						c = new(rt.LuaCont)
						lids[c], lobj[nextID] = nextID, c
					}
					rt.VerifLuaContDirty(c)
					lp.Release(c)
				} else {
					c, ok := gobj[k]
					if !ok {
						nextID++
						c = new(rt.GoCont)
						gids[c], gobj[nextID] = nextID, c
					}
					rt.VerifGoContDirty(c)
					gp.Release(c)
				}
				res = append(res, "r")
			}
		}
		next := lp.Next()
		if kind == "g" {
			next = gp.Next()
		}
		fmt.Fprintf(out, "%s %s N:%x\n", id, strings.Join(res, "/"), next)
		out.Flush()
	}
}

// regsize: <id> <pool size, hex> <hex Lua source>: runs the chunk on rt.New(nil, rt.WithRegPoolSize(size)) — the documented
// embedding option — and reports ok / error / gopanic:<message>
func regsizeEngine(in *bufio.Scanner, out *bufio.Writer) {
	for in.Scan() {
		f := strings.Fields(in.Text())
		if len(f) < 3 {
			continue
		}
		src, _ := hex.DecodeString(f[2])
		status := func() (st string) {
			defer func() {
				if x := recover(); x != nil {
					st = "gopanic:" + hex.EncodeToString([]byte(fmt.Sprint(x)))
				}
			}()
			r := rt.New(nil, rt.WithRegPoolSize(uint(hx(f[1]))))
			cleanup := lib.LoadAll(r)
			defer cleanup()
			t := r.MainThread()
			clos, err := t.LoadFromSourceOrCode("chunk", src, "t", rt.TableValue(r.GlobalEnv()), false)
			if err != nil {
				return "compile_error"
			}
			if err := rt.Call(t, rt.FunctionValue(clos), nil, rt.NewTerminationWith(nil, 0, true)); err != nil {
				return "error"
			}
			return "ok"
		}()
		fmt.Fprintf(out, "%s %s\n", f[0], status)
		out.Flush()
	}
}

func main() {
	if len(os.Args) < 2 {
		fmt.Fprintln(os.Stderr, "usage: gvh-pool reg|cont|sizes")
		os.Exit(2)
	}
	in := bufio.NewScanner(os.Stdin)
	in.Buffer(make([]byte, 1<<20), 1<<28)
	out := bufio.NewWriterSize(os.Stdout, 1<<20)
	defer out.Flush()
	switch os.Args[1] {
	case "reg":
		regEngine(in, out)
	case "cont":
		contEngine(in, out)
	case "regsize":
		regsizeEngine(in, out)
	case "sizes":
		fmt.Fprintf(out, "%d %d\n", rt.VerifLuaContPoolSize(), rt.VerifGoContPoolSize())
	default:
		os.Exit(2)
	}
}
