// gvh-marshal — Go side of the C13 correspondence (string.dump / load).
//
//	gvh-marshal lua       the shared "lua" engine (hx.LuaEngine)
//	gvh-marshal marshal   line commands on the real marshaller / refactoring:
//
//	<id> unm <budget hex> <hex bytes>
//	    rt.UnmarshalConst on the bytes; prints
//	    <id> val <cst> <used hex> <hex of MarshalConst(value)> | nil <used> | err <class> <used> | gopanic <hexmsg>
//	    each followed by A<bytes allocated by the call, hex>
//	<id> chunk <hex lua source>
//	    compiles and runs the chunk with a global reg(f) that records closures; then for the
//	    chunk itself and every recorded closure: export of the code, string.dump, load of the
//	    dump, export of that, dump again.  Prints
//	    <id> ok U:<unit export> F:<idx>;<dump hex>;<export of load(dump)>;<dump of load hex>;<upvalue cells>;<index of the cell holding _ENV>|F:...
//	    <id> fail <stage> <hexmsg>
//
// Text form of constants (tokens separated by commas, numbers in hex):
//
//	I<int> F<float bits> S<hex bytes|-> X (nil/bool/other)
//	C,<src>,<name>,<nops>,<op>..,<nlines>,<line>..,<nconsts>,<cst>..,<uc>,<rc>,<cc>,<nup>,<upname>..
//
// A unit (compiled code, all codes sharing one constant vector) is
// U,<n>,<ucst>.. where a code entry has no <nconsts>,<cst>.. part.
package main

import (
	"bufio"
	"bytes"
	"encoding/hex"
	"fmt"
	"io"
	"math"
	"os"
	"runtime"
	"strconv"
	"strings"

	"github.com/arnodel/golua/lib"
	rt "github.com/arnodel/golua/runtime"
	"gvharness/hx"
)

func hexz(n int64) string {
	if n < 0 {
		return "-" + strconv.FormatUint(uint64(-n), 16)
	}
	return strconv.FormatInt(n, 16)
}

func hexs(s string) string {
	if s == "" {
		return "-"
	}
	return hex.EncodeToString([]byte(s))
}

func headTokens(out []string, ci rt.VerifCodeInfo) []string {
	out = append(out, hexs(ci.Source), hexs(ci.Name), hexz(int64(len(ci.Ops))))
	for _, op := range ci.Ops {
		out = append(out, strconv.FormatUint(uint64(op), 16))
	}
	out = append(out, hexz(int64(len(ci.Lines))))
	for _, l := range ci.Lines {
		out = append(out, hexz(int64(l)))
	}
	return out
}

func tailTokens(out []string, ci rt.VerifCodeInfo) []string {
	out = append(out, hexz(int64(ci.UpvalueCount)), hexz(int64(ci.RegCount)), hexz(int64(ci.CellCount)), hexz(int64(len(ci.UpNames))))
	for _, n := range ci.UpNames {
		out = append(out, hexs(n))
	}
	return out
}

func scalarToken(v rt.Value) (string, bool) {
	switch v.Type() {
	case rt.IntType:
		return "I" + hexz(v.AsInt()), true
	case rt.FloatType:
		return "F" + strconv.FormatUint(math.Float64bits(v.AsFloat()), 16), true
	case rt.StringType:
		return "S" + hexs(v.AsString()), true
	}
	return "X", false
}

// tree export; depth-limited so that a cyclic (shared) vector cannot loop
func treeTokens(out []string, v rt.Value, depth int) []string {
	if c, ok := v.TryCode(); ok {
		if depth > 200 {
			return append(out, "X")
		}
		ci := c.VerifInfo()
		out = append(out, "C")
		out = headTokens(out, ci)
		out = append(out, hexz(int64(len(ci.Consts))))
		for _, k := range ci.Consts {
			out = treeTokens(out, k, depth+1)
		}
		return tailTokens(out, ci)
	}
	tok, _ := scalarToken(v)
	return append(out, tok)
}

func sameSlice(a, b []rt.Value) bool {
	if len(a) != len(b) {
		return false
	}
	return len(a) == 0 || &a[0] == &b[0]
}

// unit export of a shared constant vector; ok=false when some code in it has another vector
func unitTokens(consts []rt.Value) (string, bool) {
	out := []string{"U", hexz(int64(len(consts)))}
	good := true
	for _, k := range consts {
		if c, ok := k.TryCode(); ok {
			ci := c.VerifInfo()
			if !sameSlice(ci.Consts, consts) {
				good = false
			}
			out = append(out, "C")
			out = headTokens(out, ci)
			out = tailTokens(out, ci)
		} else {
			tok, ok := scalarToken(k)
			if !ok {
				// nil and boolean entries exist in the vector but no opcode refers to them
				tok = "X"
			}
			out = append(out, tok)
		}
	}
	return strings.Join(out, ","), good
}

func errClass(err error) string {
	switch {
	case err == io.EOF:
		return "eof"
	case err == io.ErrUnexpectedEOF:
		return "ueof"
	case err == rt.ErrInvalidMarshalPrefix:
		return "prefix"
	case err.Error() == "Invalid value type":
		return "type"
	case err.Error() == "Invalid length":
		return "len"
	case err.Error() == "Invalid code":
		return "code"
	}
	return "other:" + hex.EncodeToString([]byte(err.Error()))
}

func doUnm(id string, f []string) string {
	budget, _ := strconv.ParseUint(f[0], 16, 64)
	var data []byte
	if f[1] != "-" {
		data, _ = hex.DecodeString(f[1])
	}
	res := ""
	func() {
		defer func() {
			if x := recover(); x != nil {
				res = "gopanic " + hex.EncodeToString([]byte(fmt.Sprint(x)))
			}
		}()
		// bytes the call allocated (TotalAlloc is exact after the stop-the-world of ReadMemStats)
		// The call is made twice and the smaller figure reported: the first use of a type by
		// encoding/binary fills reflection caches, which is not an allocation of this call.
		var m0, m1, m2 runtime.MemStats
		buf := bytes.NewBuffer(data)
		runtime.ReadMemStats(&m0)
		v, used, err := rt.UnmarshalConst(buf, budget)
		runtime.ReadMemStats(&m1)
		func() {
			defer func() { recover() }()
			rt.UnmarshalConst(bytes.NewBuffer(data), budget)
		}()
		runtime.ReadMemStats(&m2)
		alloc := m1.TotalAlloc - m0.TotalAlloc
		if d := m2.TotalAlloc - m1.TotalAlloc; d < alloc {
			alloc = d
		}
		defer func() { res += fmt.Sprintf(" A%x", alloc) }()
		switch {
		case err != nil:
			res = fmt.Sprintf("err %s %x", errClass(err), used)
		case v.IsNil():
			res = fmt.Sprintf("nil %x", used)
		default:
			var w bytes.Buffer
			_, merr := rt.MarshalConst(&w, v, 0)
			re := hex.EncodeToString(w.Bytes())
			if merr != nil {
				re = "merr:" + hex.EncodeToString([]byte(merr.Error()))
			}
			res = fmt.Sprintf("val %s %x %s", strings.Join(treeTokens(nil, v, 0), ","), used, re)
		}
	}()
	return id + " " + res
}

func fail(id, stage string, msg string) string {
	return fmt.Sprintf("%s fail %s %s", id, stage, hexs(msg))
}

func doChunk(id string, f []string) (line string) {
	src, err := hex.DecodeString(f[0])
	if err != nil {
		return fail(id, "input", "bad hex")
	}
	defer func() {
		if x := recover(); x != nil {
			line = fail(id, "gopanic", fmt.Sprint(x))
		}
	}()
	var stdout bytes.Buffer
	r := rt.New(&stdout)
	cleanup := lib.LoadAll(r)
	defer cleanup()
	var closures []*rt.Closure
	reg := func(t *rt.Thread, c *rt.GoCont) (rt.Cont, error) {
		for _, v := range c.Etc() {
			if cl, ok := v.TryClosure(); ok {
				closures = append(closures, cl)
			}
		}
		return c.Next(), nil
	}
	g := r.SetEnvGoFunc(r.GlobalEnv(), "reg", reg, 0, true)
	rt.SolemnlyDeclareCompliance(rt.ComplyCpuSafe|rt.ComplyMemSafe|rt.ComplyTimeSafe|rt.ComplyIoSafe, g)
	emit := func(t *rt.Thread, c *rt.GoCont) (rt.Cont, error) {
		return c.PushingNext(t.Runtime, c.Etc()...), nil
	}
	g2 := r.SetEnvGoFunc(r.GlobalEnv(), "emit", emit, 0, true)
	rt.SolemnlyDeclareCompliance(rt.ComplyCpuSafe|rt.ComplyMemSafe|rt.ComplyTimeSafe|rt.ComplyIoSafe, g2)
	t := r.MainThread()
	env := rt.TableValue(r.GlobalEnv())
	main, err := t.LoadFromSourceOrCode("chunk", src, "t", env, false)
	if err != nil {
		return fail(id, "compile", err.Error())
	}
	closures = append(closures, main)
	if cerr := rt.Call(t, rt.FunctionValue(main), nil, rt.NewTerminationWith(nil, 0, false)); cerr != nil {
		return fail(id, "run", cerr.Error())
	}
	mi := rt.VerifCodeDump(main)
	unit, good := unitTokens(mi.Consts)
	if !good {
		return fail(id, "unit", "codes of the unit do not share one constant vector")
	}
	strlib := r.GlobalEnv().Get(rt.StringValue("string"))
	dumpf := strlib.AsTable().Get(rt.StringValue("dump"))
	loadf := r.GlobalEnv().Get(rt.StringValue("load"))
	parts := []string{}
	for _, cl := range closures {
		ci := rt.VerifCodeDump(cl)
		idx := -1
		if sameSlice(ci.Consts, mi.Consts) {
			for i, k := range mi.Consts {
				if c, ok := k.TryCode(); ok && c == cl.Code {
					idx = i
				}
			}
		}
		d1, err := rt.Call1(t, dumpf, rt.FunctionValue(cl))
		if err != nil {
			return fail(id, "dump", err.Error())
		}
		d1s, ok := d1.TryString()
		if !ok {
			return fail(id, "dump", "string.dump did not return a string")
		}
		term := rt.NewTerminationWith(nil, 2, false)
		if err := rt.Call(t, loadf, []rt.Value{d1, rt.StringValue("reload"), rt.StringValue("b")}, term); err != nil {
			return fail(id, "load", err.Error())
		}
		lcl, ok := term.Get(0).TryClosure()
		if !ok {
			msg, _ := term.Get(1).TryString()
			return fail(id, "load", "load returned no function: "+msg)
		}
		d2, err := rt.Call1(t, dumpf, rt.FunctionValue(lcl))
		if err != nil {
			return fail(id, "dump2", err.Error())
		}
		d2s, _ := d2.TryString()
		// which upvalue cell of the reloaded closure holds the global environment (-1: none)
		envIdx := -1
		for i := range lcl.Upvalues {
			if tb, ok := lcl.GetUpvalue(i).TryTable(); ok && tb == r.GlobalEnv() && envIdx < 0 {
				envIdx = i
			}
		}
		parts = append(parts, fmt.Sprintf("F:%s;%s;%s;%s;%x;%s", hexz(int64(idx)), hexs(d1s),
			strings.Join(treeTokens(nil, rt.CodeValue(lcl.Code), 0), ","), hexs(d2s), len(lcl.Upvalues), hexz(int64(envIdx))))
	}
	return fmt.Sprintf("%s ok U:%s %s", id, unit, strings.Join(parts, "|"))
}

func marshalEngine(in *bufio.Scanner, out *bufio.Writer) {
	for in.Scan() {
		f := strings.Fields(in.Text())
		if len(f) < 2 {
			continue
		}
		var line string
		switch {
		case f[1] == "unm" && len(f) == 4:
			line = doUnm(f[0], f[2:])
		case f[1] == "chunk" && len(f) == 3:
			line = doChunk(f[0], f[2:])
		default:
			line = f[0] + " fail input -"
		}
		fmt.Fprintln(out, line)
		out.Flush()
	}
}

func main() {
	if len(os.Args) < 2 {
		fmt.Fprintln(os.Stderr, "usage: gvh-marshal lua|marshal")
		os.Exit(2)
	}
	in := bufio.NewScanner(os.Stdin)
	in.Buffer(make([]byte, 1<<20), 1<<28)
	out := bufio.NewWriterSize(os.Stdout, 1<<20)
	defer out.Flush()
	switch os.Args[1] {
	case "lua":
		hx.LuaEngine(in, out, os.Args[2:])
	case "marshal":
		marshalEngine(in, out)
	default:
		fmt.Fprintln(os.Stderr, "unknown engine", os.Args[1])
		os.Exit(2)
	}
}
