/* reflua.c — reference oracle for C15: PUC-Rio Lua 5.3.6 (liblua5.3, whose
   lstrlib.c has the same pattern matcher and the same empty-match rule
   ("lastmatch", introduced in 5.3.3) as Lua 5.4).  Reads the C15 case lines
     <id> <pattern hex> <subject hex> <init 0-based> <repl hex> <maxn: A | i<signed hex> | f<float>> <budget> <mode>
   and prints  <id> F=.. M=.. GM=.. GS=..  in the notation of gvh-pattern.
   Used only to validate the specification side (Spec.v / Drivers.v S functions). */
#include <lua5.3/lua.h>
#include <lua5.3/lauxlib.h>
#include <lua5.3/lualib.h>
#include <stdio.h>
#include <stdlib.h>
#include <string.h>

static const char *prog =
"local function hex(s) if s == '' then return '-' end return (s:gsub('.', function(c) return string.format('%02x', c:byte()) end)) end\n"
"local function unhex(h) if h == '-' then return '' end return (h:gsub('%x%x', function(x) return string.char(tonumber(x, 16)) end)) end\n"
"local function val(v) if v == nil then return 'n' elseif math.type(v) == 'integer' then return 'i' .. v elseif type(v) == 'string' then return v == '' and 's-' or 's' .. hex(v) else return '?' .. type(v) end end\n"
"local function cls(msg)\n"
"  if msg:find('invalid capture index') then return 'invalid_capture_index' .. (msg:match('%%(%d+)') or '') end\n"
"  if msg:find('invalid use of') then return 'invalid_pct' end\n"
"  if msg:find(\"missing '%[' after\") then return 'missing_bracket' end\n"
"  if msg:find('malformed pattern') or msg:find('missing') then return 'malformed' end\n"
"  if msg:find('unfinished capture') then return 'unfinished_capture' end\n"
"  if msg:find('invalid pattern capture') then return 'invalid_pattern_capture' end\n"
"  if msg:find('too complex') then return 'too_complex' end\n"
"  if msg:find('no integer representation') then return 'not_integer' end\n"
"  return 'other' end\n"
"local function dres(ok, ...)\n"
"  if not ok then return 'E' .. cls(tostring((...))) end\n"
"  local n = select('#', ...)\n"
"  if n == 0 or (n == 1 and (...) == nil) then return 'nil' end\n"
"  local t = {} for i = 1, n do t[i] = val((select(i, ...))) end\n"
"  return 'V' .. table.concat(t, ';') end\n"
"for line in io.lines() do\n"
"  local id, ph, sh, init, rh, maxn = line:match('^(%S+) (%S+) (%S+) (%-?%d+) (%S+) (%S+)')\n"
"  if id then\n"
"    local p, s, r = unhex(ph), unhex(sh), unhex(rh)\n"
"    init = tonumber(init) + 1\n"
"    local k, body = maxn:sub(1, 1), maxn:sub(2)\n"
"    if k == 'A' then maxn = nil\n"
"    elseif k == 'i' then local neg = body:sub(1, 1) == '-'; if neg then body = body:sub(2) end\n"
"      maxn = tonumber('0x' .. body); if neg then maxn = -maxn end\n"
"    else maxn = tonumber(body) + 0.0 end\n"
"    local out = { id }\n"
"    out[#out+1] = 'F=' .. dres(pcall(string.find, s, p, init))\n"
"    out[#out+1] = 'M=' .. dres(pcall(string.match, s, p, init))\n"
"    local seq, fin = {}, 'nil'\n"
"    local ok, it, st, c0 = pcall(string.gmatch, s, p)\n"
"    if not ok then fin = 'E' .. cls(tostring(it)) else\n"
"      for k = 1, #s + 4 do\n"
"        local res = table.pack(pcall(it, st, c0))\n"
"        if not res[1] then fin = 'E' .. cls(tostring(res[2])) break end\n"
"        if res[2] == nil then break end\n"
"        local t = {} for i = 2, res.n do t[#t+1] = val(res[i]) end\n"
"        seq[#seq+1] = table.concat(t, ';')\n"
"      end end\n"
"    out[#out+1] = 'GM=' .. table.concat(seq, '/') .. '!' .. fin\n"
"    if maxn ~= nil then out[#out+1] = 'GS=' .. dres(pcall(string.gsub, s, p, r, maxn))\n"
"    else out[#out+1] = 'GS=' .. dres(pcall(string.gsub, s, p, r)) end\n"
"    io.write(table.concat(out, ' '), '\\n')\n"
"  end\n"
"end\n";

int main(void) {
  lua_State *L = luaL_newstate();
  luaL_openlibs(L);
  if (luaL_dostring(L, prog)) { fprintf(stderr, "%s\n", lua_tostring(L, -1)); return 1; }
  return 0;
}
