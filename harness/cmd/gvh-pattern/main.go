// gvh-pattern — Go side of the C15 (Lua pattern matching) correspondence.
//
//	gvh-pattern cases   reads  <id> <pattern hex> <subject hex> <init 0-based> <repl hex> <maxn> <budget> <mode>
//	                    prints <id> B=.. MS=.. MM=.. [F=.. M=.. GM=.. GS=..]
//	                    in the same notation as oracle/pattern/driver.ml
//	gvh-pattern lua     the generic Lua engine (hx.LuaEngine), used for the CPU-budget clause
//
// B  : pattern.New (+ VerifDump of the compiled items)
// MS : Pattern.MatchFromStart, MM : Pattern.Match  -> captures/used/panicked
//
//	(panicked comes from the hook VerifMatchRaw, the rest from the public API)
//
// F, M, GM, GS : string.find / match / gmatch / gsub called on a real runtime.
package main

import (
	"bufio"
	"bytes"
	"encoding/hex"
	"fmt"
	"os"
	"strconv"
	"strings"

	"gvharness/hx"

	"github.com/arnodel/golua/lib"
	"github.com/arnodel/golua/lib/stringlib/pattern"
	rt "github.com/arnodel/golua/runtime"
)

func unhex(s string) string {
	if s == "-" {
		return ""
	}
	b, err := hex.DecodeString(s)
	if err != nil {
		panic(err)
	}
	return string(b)
}

func errClass(msg string) string {
	switch {
	case strings.Contains(msg, "missing '[' after '%f'"):
		return "missing_bracket"
	case strings.Contains(msg, "malformed pattern"):
		return "malformed"
	case strings.Contains(msg, "unfinished capture"):
		return "unfinished_capture"
	case strings.Contains(msg, "invalid pattern capture"):
		return "invalid_pattern_capture"
	case strings.Contains(msg, "pattern too complex"):
		return "too_complex"
	case strings.Contains(msg, "invalid capture index %"):
		i := strings.Index(msg, "invalid capture index %")
		rest := msg[i+len("invalid capture index %"):]
		n := 0
		for n < len(rest) && rest[n] >= '0' && rest[n] <= '9' {
			n++
		}
		return "invalid_capture_index" + rest[:n]
	case strings.Contains(msg, "invalid use of '%'"):
		return "invalid_pct"
	case strings.Contains(msg, "must be an integer"):
		return "not_integer"
	}
	return "other:" + hex.EncodeToString([]byte(msg))
}

func capsStr(caps []pattern.Capture) string {
	parts := make([]string, len(caps))
	for i, c := range caps {
		parts[i] = fmt.Sprintf("%d:%d", c.Start(), c.End())
	}
	return strings.Join(parts, ",")
}

func apiStr(p *pattern.Pattern, s string, init int, budget uint64, fromStart bool) string {
	var caps []pattern.Capture
	var used uint64
	escaped := false // a Go panic came out of Match / MatchFromStart
	func() {
		defer func() {
			if x := recover(); x != nil {
				escaped = true
			}
		}()
		if fromStart {
			caps, used = p.MatchFromStart(s, init, budget)
		} else {
			caps, used = p.Match(s, init, budget)
		}
	}()
	_, _, panicked := pattern.VerifMatchRaw(p, s, init, budget, fromStart)
	res := "nil"
	if len(caps) > 0 {
		res = "c" + capsStr(caps)
	}
	if escaped {
		res, used = "panic", 0
	}
	pf := "0"
	if panicked != "" {
		pf = "1"
	}
	return fmt.Sprintf("%s/%d/%s", res, used, pf)
}

// ---------------------------------------------------------------- Lua level

type luaSide struct {
	r                         *rt.Runtime
	find, match, gmatch, gsub rt.Value
	cleanup                   func()
}

func newLuaSide() *luaSide {
	var out bytes.Buffer
	r := rt.New(&out)
	cl := lib.LoadAll(r)
	st := r.GlobalEnv().Get(rt.StringValue("string")).AsTable()
	return &luaSide{r: r, cleanup: cl,
		find:   st.Get(rt.StringValue("find")),
		match:  st.Get(rt.StringValue("match")),
		gmatch: st.Get(rt.StringValue("gmatch")),
		gsub:   st.Get(rt.StringValue("gsub")),
	}
}

func valStr(v rt.Value) string {
	switch v.Type() {
	case rt.NilType:
		return "n"
	case rt.IntType:
		return "i" + strconv.FormatInt(v.AsInt(), 10)
	case rt.StringType:
		if v.AsString() == "" {
			return "s-"
		}
		return "s" + hex.EncodeToString([]byte(v.AsString()))
	}
	return "?" + v.TypeName()
}

// call returns (values, error class, panicked)
func (l *luaSide) call(f rt.Value, args ...rt.Value) (vals []rt.Value, ecls string, panicked bool) {
	defer func() {
		if x := recover(); x != nil {
			panicked = true
		}
	}()
	term := rt.NewTerminationWith(nil, 0, true)
	err := rt.Call(l.r.MainThread(), f, args, term)
	if err != nil {
		return nil, errClass(err.Error()), false
	}
	return append([]rt.Value{}, term.Etc()...), "", false
}

func dresStr(vals []rt.Value, ecls string, panicked bool) string {
	if panicked {
		return "panic"
	}
	if ecls != "" {
		return "E" + ecls
	}
	if len(vals) == 0 || (len(vals) == 1 && vals[0].IsNil()) {
		return "nil"
	}
	parts := make([]string, len(vals))
	for i, v := range vals {
		parts[i] = valStr(v)
	}
	return "V" + strings.Join(parts, ";")
}

func casesEngine(in *bufio.Scanner, out *bufio.Writer) {
	ls := newLuaSide()
	for in.Scan() {
		f := strings.Fields(in.Text())
		if len(f) != 8 {
			continue
		}
		id, ptn, s, repl, mode := f[0], unhex(f[1]), unhex(f[2]), unhex(f[4]), f[7]
		init, _ := strconv.Atoi(f[3])
		// 4th argument of gsub: A (absent) | i<signed hex> | f<float>
		var maxn *rt.Value
		switch f[5][0] {
		case 'i':
			n, _ := strconv.ParseInt(f[5][1:], 16, 64)
			v := rt.IntValue(n)
			maxn = &v
		case 'f':
			x, _ := strconv.ParseFloat(f[5][1:], 64)
			v := rt.FloatValue(x)
			maxn = &v
		}
		budget, _ := strconv.ParseUint(f[6], 10, 64)
		var b strings.Builder
		b.WriteString(id)
		p, err := pattern.New(ptn)
		if err != nil {
			b.WriteString(" B=err:" + errClass(err.Error()))
		} else {
			b.WriteString(" B=ok:" + pattern.VerifDump(p))
			b.WriteString(" MS=" + apiStr(p, s, init, budget, true))
			b.WriteString(" MM=" + apiStr(p, s, init, budget, false))
		}
		if mode == "a" {
			sv, pv, iv := rt.StringValue(s), rt.StringValue(ptn), rt.IntValue(int64(init+1))
			renew := false
			v, e, pk := ls.call(ls.find, sv, pv, iv)
			renew = renew || pk
			b.WriteString(" F=" + dresStr(v, e, pk))
			v, e, pk = ls.call(ls.match, sv, pv, iv)
			renew = renew || pk
			b.WriteString(" M=" + dresStr(v, e, pk))
			// gmatch
			v, e, pk = ls.call(ls.gmatch, sv, pv, iv)
			renew = renew || pk
			if pk || e != "" || len(v) == 0 {
				b.WriteString(" GM=" + dresStr(v, e, pk))
			} else {
				iter := v[0]
				var seq []string
				fin := "fuel"
				for k := 0; k < len(s)+4; k++ {
					rv, re, rp := ls.call(iter)
					renew = renew || rp
					if rp {
						fin = "panic"
						break
					}
					if re != "" {
						fin = "E" + re
						break
					}
					if len(rv) == 0 || rv[0].IsNil() {
						fin = "nil"
						break
					}
					parts := make([]string, len(rv))
					for i, x := range rv {
						parts[i] = valStr(x)
					}
					seq = append(seq, strings.Join(parts, ";"))
				}
				b.WriteString(" GM=" + strings.Join(seq, "/") + "!" + fin)
			}
			// gsub
			if maxn != nil {
				v, e, pk = ls.call(ls.gsub, sv, pv, rt.StringValue(repl), *maxn)
			} else {
				v, e, pk = ls.call(ls.gsub, sv, pv, rt.StringValue(repl))
			}
			renew = renew || pk
			b.WriteString(" GS=" + dresStr(v, e, pk))
			if renew {
				ls = newLuaSide()
			}
		}
		fmt.Fprintln(out, b.String())
		out.Flush()
	}
}

func main() {
	in := bufio.NewScanner(os.Stdin)
	in.Buffer(make([]byte, 1<<20), 1<<28)
	out := bufio.NewWriterSize(os.Stdout, 1<<20)
	defer out.Flush()
	if len(os.Args) >= 2 && os.Args[1] == "lua" {
		hx.LuaEngine(in, out, os.Args[2:])
		return
	}
	casesEngine(in, out)
}
