// gvh-table — Go side of the C03 correspondence check.
//
//	gvh-table hist [-v]   table histories on the real runtime.Table through Get/Set/Reset/Next/Len,
//	                      with the complete internal state (verif hook Table.VerifDump) after every operation
//	gvh-table lua         Lua chunks on the real runtime (hx.LuaEngine)
//
// hist input : <id> <stride> ; <op> ; <op> ; ...   (state digest after every stride-th op and the last one)
//                   ops: S k v | R k v | G k | N k | L | E a b | J a b | W m p q fresh cap   (numbers in hex)
// hist output: <id> H:<key=hexhash,...|-> O:<res> <state>|<res> <state>|...
// values     : n b0 b1 i<hex, leading - if negative> f<16 hex bits> s<hex>|s- t<k> g<k> c<ptr>.<cls>
package main

import (
	"bufio"
	"crypto/md5"
	"encoding/hex"
	"fmt"
	"math"
	"os"
	"strconv"
	"strings"

	"gvharness/hx"

	"github.com/arnodel/golua/lib"
	rt "github.com/arnodel/golua/runtime"
)

type world struct {
	r         *rt.Runtime
	factories []rt.Value
	toks      map[interface{}]string // identity values -> token
	vals      map[string]rt.Value    // token -> identity value
}

const factorySrc = `local u1, u2a, u2b, u3 = 1, 2, 3, 4
return
  function() return function() end end,
  function() return function() return u1 end end,
  function() return function() return u2a + u2b end end,
  function() return function() u3 = u3 + 1 return u3 end end`

func newWorld() *world {
	w := &world{toks: map[interface{}]string{}, vals: map[string]rt.Value{}}
	w.r = rt.New(nil)
	cleanup := lib.LoadAll(w.r)
	_ = cleanup
	t := w.r.MainThread()
	clos, err := t.LoadFromSourceOrCode("factories", []byte(factorySrc), "t", rt.TableValue(w.r.GlobalEnv()), false)
	if err != nil {
		panic(err)
	}
	term := rt.NewTerminationWith(nil, 0, true)
	if err := rt.Call(t, rt.FunctionValue(clos), nil, term); err != nil {
		panic(err)
	}
	w.factories = append(w.factories, term.Etc()...)
	return w
}

func (w *world) parse(s string) rt.Value {
	switch s[0] {
	case 'n':
		return rt.NilValue
	case 'b':
		return rt.BoolValue(s == "b1")
	case 'i':
		neg := false
		h := s[1:]
		if h[0] == '-' {
			neg = true
			h = h[1:]
		}
		u, err := strconv.ParseUint(h, 16, 64)
		if err != nil {
			panic("bad int " + s)
		}
		if neg {
			return rt.IntValue(-int64(u)) // also right for 2^63
		}
		return rt.IntValue(int64(u))
	case 'f':
		b, err := strconv.ParseUint(s[1:], 16, 64)
		if err != nil {
			panic("bad float " + s)
		}
		return rt.FloatValue(math.Float64frombits(b))
	case 's':
		if s == "s-" {
			return rt.StringValue("")
		}
		b, err := hex.DecodeString(s[1:])
		if err != nil {
			panic("bad string " + s)
		}
		return rt.StringValue(string(b))
	}
	if v, ok := w.vals[s]; ok {
		return v
	}
	var v rt.Value
	switch s[0] {
	case 't':
		v = rt.TableValue(rt.NewTable())
	case 'g':
		v = rt.FunctionValue(rt.NewGoFunction(func(t *rt.Thread, c *rt.GoCont) (rt.Cont, error) { return c.Next(), nil }, "g"+s[1:], 0, false))
	case 'c':
		parts := strings.Split(s[1:], ".")
		cls, _ := strconv.ParseUint(parts[1], 16, 64)
		var err error
		v, err = rt.Call1(w.r.MainThread(), w.factories[int(cls)%len(w.factories)])
		if err != nil {
			panic(err)
		}
	default:
		panic("bad value " + s)
	}
	w.vals[s] = v
	w.toks[v.Interface()] = s
	return v
}

func (w *world) show(v rt.Value) string {
	switch v.Type() {
	case rt.NilType:
		return "n"
	case rt.BoolType:
		if v.AsBool() {
			return "b1"
		}
		return "b0"
	case rt.IntType:
		n := v.AsInt()
		if n < 0 {
			return "i-" + strconv.FormatUint(uint64(-n), 16)
		}
		return "i" + strconv.FormatUint(uint64(n), 16)
	case rt.FloatType:
		return fmt.Sprintf("f%016x", math.Float64bits(v.AsFloat()))
	case rt.StringType:
		s := v.AsString()
		if s == "" {
			return "s-"
		}
		return "s" + hex.EncodeToString([]byte(s))
	}
	if tok, ok := w.toks[v.Interface()]; ok {
		return tok
	}
	return "?" + v.TypeName()
}

func (w *world) slot(s rt.VerifSlot) string {
	b := func(x bool) string {
		if x {
			return "1"
		}
		return "0"
	}
	return w.show(s.Key) + ":" + w.show(s.Value) + ":" + strconv.FormatUint(uint64(s.Next), 16) + ":" + b(s.HasNext) + ":" + b(s.Chained)
}

func (w *world) stateFull(d rt.VerifTableDump) string {
	var sb strings.Builder
	if !d.HasHash {
		sb.WriteString("H-")
	} else {
		sb.WriteString("H" + strconv.FormatUint(uint64(d.Base), 16) + ",")
		if d.NoNextFree {
			sb.WriteString("-")
		} else {
			sb.WriteString(strconv.FormatUint(uint64(d.NextFree), 16))
		}
		sb.WriteString("[")
		for i, s := range d.Slots {
			if i > 0 {
				sb.WriteString(";")
			}
			sb.WriteString(w.slot(s))
		}
		sb.WriteString("]")
	}
	sb.WriteString("/")
	if !d.HasArray {
		sb.WriteString("A-")
	} else {
		sb.WriteString("A" + strconv.FormatUint(uint64(d.ArrayLen), 16) + "[")
		for i, v := range d.Array {
			if i > 0 {
				sb.WriteString(";")
			}
			sb.WriteString(w.show(v))
		}
		sb.WriteString("]")
	}
	return sb.String()
}

func (w *world) stateDigest(d rt.VerifTableDump, full bool) string {
	var sb strings.Builder
	if !d.HasHash {
		sb.WriteString("H-")
	} else {
		sb.WriteString("H" + strconv.FormatUint(uint64(d.Base), 16) + ",")
		if d.NoNextFree {
			sb.WriteString("-")
		} else {
			sb.WriteString(strconv.FormatUint(uint64(d.NextFree), 16))
		}
	}
	sb.WriteString("/")
	if !d.HasArray {
		sb.WriteString("A-")
	} else {
		sb.WriteString("A" + strconv.FormatUint(uint64(d.ArrayLen), 16) + "," + strconv.FormatUint(uint64(len(d.Array)), 16))
	}
	if !full {
		return sb.String()
	}
	sum := md5.Sum([]byte(w.stateFull(d)))
	return sb.String() + "#" + hex.EncodeToString(sum[:])
}

func hexn(s string) uint64 {
	neg := strings.HasPrefix(s, "-")
	if neg {
		s = s[1:]
	}
	u, err := strconv.ParseUint(s, 16, 64)
	if err != nil {
		panic("bad number " + s)
	}
	if neg {
		return uint64(-int64(u))
	}
	return u
}

func (w *world) pairs(kv []rt.Value) string {
	if len(kv) == 0 {
		return "-"
	}
	parts := make([]string, 0, len(kv)/2)
	for i := 0; i+1 < len(kv); i += 2 {
		parts = append(parts, w.show(kv[i])+"="+w.show(kv[i+1]))
	}
	return strings.Join(parts, ",")
}

// apply one operation; returns the result string
func (w *world) apply(t *rt.Table, f []string) (res string, panicked bool) {
	defer func() {
		if x := recover(); x != nil {
			res = "panic"
			panicked = true
		}
	}()
	switch f[0] {
	case "S":
		t.Set(w.parse(f[1]), w.parse(f[2]))
		return "-", false
	case "R":
		if t.Reset(w.parse(f[1]), w.parse(f[2])) {
			return "w1", false
		}
		return "w0", false
	case "G":
		return w.show(t.Get(w.parse(f[1]))), false
	case "N":
		nk, nv, ok := t.Next(w.parse(f[1]))
		s := "invalid"
		if ok {
			s = "ok"
		}
		return w.show(nk) + "," + w.show(nv) + "," + s, false
	case "L":
		return strconv.FormatInt(t.Len(), 16), false
	case "J":
		// what debug.upvaluejoin(a, 1, b, 1) does (lib/debuglib/debuglib.go:164): a's first upvalue becomes b's cell
		a, b := w.parse(f[1]), w.parse(f[2])
		ca, ok1 := a.TryClosure()
		cb, ok2 := b.TryClosure()
		if ok1 && ok2 && len(ca.Upvalues) > 0 && len(cb.Upvalues) > 0 {
			ca.Upvalues[0] = cb.Upvalues[0]
		}
		return "-", false
	case "E":
		// value equality against table-key identity for one pair of values, all at run time:
		// Value.Equals, RawEqual (what rawequal and == without __eq use), and "same entry"
		a, b := w.parse(f[1]), w.parse(f[2])
		bit := func(x bool) string {
			if x {
				return "1"
			}
			return "0"
		}
		req, _ := rt.RawEqual(a, b)
		same, sameBig := "-", "-"
		if !a.IsNil() && !a.IsNaN() {
			tt := rt.NewTable()
			tt.Set(a, rt.BoolValue(true))
			same = bit(!tt.Get(b).IsNil())
			// the same question in a table whose hash part is hashed (pre-filled with 24 string keys)
			tb := rt.NewTable()
			for i := 0; i < 24; i++ {
				tb.Set(rt.StringValue(fmt.Sprintf("pf%02d", i)), rt.BoolValue(true))
			}
			tb.Set(a, rt.BoolValue(true))
			sameBig = bit(!tb.Get(b).IsNil())
		}
		return "q" + bit(a.Equals(b)) + bit(req) + same + sameBig, false
	case "W":
		m, p, q, fresh, capn := hexn(f[1]), hexn(f[2]), hexn(f[3]), int64(hexn(f[4])), hexn(f[5])
		var vis []rt.Value
		k := rt.NilValue
		status := "cap"
		for j := uint64(0); j < capn; j++ {
			nk, nv, ok := t.Next(k)
			if !ok {
				status = "invalid"
				break
			}
			if nk.IsNil() {
				status = "end"
				break
			}
			nv2 := rt.IntValue(fresh + int64(j))
			switch (j*p + q) % m {
			case 0:
				t.Reset(nk, rt.NilValue)
			case 1:
				t.Reset(nk, nv2)
			case 2:
				t.Set(nk, nv2)
			}
			vis = append(vis, nk, nv)
			k = nk
		}
		return status + ":" + w.pairs(vis), false
	}
	panic("bad op " + strings.Join(f, " "))
}

func histEngine(in *bufio.Scanner, out *bufio.Writer, verbose bool) {
	w := newWorld()
	for in.Scan() {
		line := in.Text()
		i := strings.IndexByte(line, ' ')
		if i < 0 {
			continue
		}
		id, rest := line[:i], line[i+1:]
		t := rt.NewTable()
		var outs []string
		var hashes []string
		seen := map[string]bool{}
		addHash := func(tok string) {
			if seen[tok] {
				return
			}
			seen[tok] = true
			v := w.parse(tok)
			hashes = append(hashes, tok+"="+strconv.FormatUint(uint64(v.VerifHash()), 16))
			if n, ok := rt.ToIntNoString(v); ok {
				iv := rt.IntValue(n)
				itok := w.show(iv)
				if !seen[itok] {
					seen[itok] = true
					hashes = append(hashes, itok+"="+strconv.FormatUint(uint64(iv.VerifHash()), 16))
				}
			}
		}
		fields := strings.Split(rest, ";")
		stride := 1
		if n, err := strconv.Atoi(strings.TrimSpace(fields[0])); err == nil && n > 0 {
			stride = n
		}
		fields = fields[1:]
		for opi, op := range fields {
			f := strings.Fields(op)
			if len(f) == 0 {
				continue
			}
			switch f[0] {
			case "S", "R", "G", "N":
				addHash(f[1])
			case "E":
				addHash(f[1])
				addHash(f[2])
				for i := 0; i < 24; i++ {
					addHash("s" + hex.EncodeToString([]byte(fmt.Sprintf("pf%02d", i))))
				}
			case "L":
				// len probes IntValue(len+1), len+2, ... in the hash part: report the hashes of
				// the integers just above the current array length
			}
			res, panicked := w.apply(t, f)
			if panicked {
				outs = append(outs, res)
				break
			}
			d := t.VerifDump()
			if f[0] == "L" {
				l := t.Len()
				for x := int64(d.ArrayLen); x <= l+1; x++ {
					addHash(w.show(rt.IntValue(x)))
				}
			}
			if verbose {
				outs = append(outs, res+" "+w.stateFull(d))
			} else {
				outs = append(outs, res+" "+w.stateDigest(d, opi%stride == 0 || opi == len(fields)-1))
			}
		}
		hs := "-"
		if len(hashes) > 0 {
			hs = strings.Join(hashes, ",")
		}
		fmt.Fprintf(out, "%s H:%s O:%s\n", id, hs, strings.Join(outs, "|"))
		out.Flush()
	}
}

func main() {
	if len(os.Args) < 2 {
		fmt.Fprintln(os.Stderr, "usage: gvh-table hist [-v] | lua")
		os.Exit(2)
	}
	in := bufio.NewScanner(os.Stdin)
	in.Buffer(make([]byte, 1<<20), 1<<28)
	out := bufio.NewWriterSize(os.Stdout, 1<<20)
	defer out.Flush()
	switch os.Args[1] {
	case "hist":
		histEngine(in, out, len(os.Args) > 2 && os.Args[2] == "-v")
	case "lua":
		hx.LuaEngine(in, out, os.Args[2:])
	default:
		fmt.Fprintln(os.Stderr, "unknown engine", os.Args[1])
		os.Exit(2)
	}
}
