// gvh — the Go side of the correspondence checks.  One binary, one
// subcommand per engine; each engine reads cases on stdin (one per line) and
// prints one result line per case, in the same text protocol as the OCaml
// oracle that runs the extracted Coq model.
package main

import (
	"bufio"
	"fmt"
	"os"
	"sort"
)

type engine func(in *bufio.Scanner, out *bufio.Writer, args []string)

var engines = map[string]engine{}

func register(name string, e engine) { engines[name] = e }

func main() {
	if len(os.Args) < 2 {
		names := []string{}
		for n := range engines {
			names = append(names, n)
		}
		sort.Strings(names)
		fmt.Fprintln(os.Stderr, "usage: gvh <engine> [args]; engines:", names)
		os.Exit(2)
	}
	e, ok := engines[os.Args[1]]
	if !ok {
		fmt.Fprintln(os.Stderr, "unknown engine", os.Args[1])
		os.Exit(2)
	}
	in := bufio.NewScanner(os.Stdin)
	in.Buffer(make([]byte, 1<<20), 1<<28)
	out := bufio.NewWriterSize(os.Stdout, 1<<20)
	defer out.Flush()
	e(in, out, os.Args[2:])
}
