package main

import "gvharness/hx"

func init() { register("lua", engine(hx.LuaEngine)) }
