package main

// Engine "ctx": drives the real runtime context manager through its exported
// API (methods promoted to *runtime.Runtime) with histories of
// push/pop/require/release/stop operations and dumps, after every operation,
// the outcome and the whole chain of contexts.

import (
	"bufio"
	"fmt"
	"strconv"
	"strings"

	rt "github.com/arnodel/golua/runtime"
)

func init() { register("ctx", ctxEngine) }

func hexu(s string) uint64 {
	v, err := strconv.ParseUint(s, 16, 64)
	if err != nil {
		panic("bad hex " + s)
	}
	return v
}

// timed mode (engine argument "timed"): context definitions carry time limits, the op "T <ms>" sets the
// clock the manager reads (only in a binary built with the clock overlay, see ctx_clock.go) and every dump
// ends with the three Millis fields.
var ctxTimed bool
var setFakeClock func(uint64)

func ctxDump(c rt.RuntimeContext) string {
	h, s, u := c.HardLimits(), c.SoftLimits(), c.UsedResources()
	due := "0"
	if c.Due() {
		due = "1"
	}
	d := fmt.Sprintf("%x,%x,%x,%x,%x,%x,%x,%s,%s", h.Cpu, h.Memory, s.Cpu, s.Memory, u.Cpu, u.Memory,
		uint64(c.RequiredFlags()), c.Status().String(), due)
	if ctxTimed {
		d += fmt.Sprintf(",%x,%x,%x", h.Millis, s.Millis, u.Millis)
	}
	return d
}

func chainDump(r *rt.Runtime) string {
	var parts []string
	var c rt.RuntimeContext = r.RuntimeContext()
	for c != nil {
		parts = append(parts, ctxDump(c))
		p := c.Parent()
		// a nil *runtimeContextManager inside the interface
		if p == nil || fmt.Sprintf("%p", p) == "0x0" {
			break
		}
		c = p
	}
	return strings.Join(parts, "/")
}

func classifyTerm(msg string) string {
	var l uint64
	switch {
	case msg == "force kill":
		return "term:force"
	case strings.HasPrefix(msg, "CPU limit of "):
		fmt.Sscanf(msg, "CPU limit of %d exceeded", &l)
		return fmt.Sprintf("term:cpu:%x", l)
	case strings.HasPrefix(msg, "memory limit of "):
		fmt.Sscanf(msg, "memory limit of %d exceeded", &l)
		return fmt.Sprintf("term:mem:%x", l)
	case strings.HasPrefix(msg, "time limit of "):
		fmt.Sscanf(msg, "time limit of %d exceeded", &l)
		return fmt.Sprintf("term:time:%x", l)
	}
	return "term:?" + msg
}

func ctxApply(r *rt.Runtime, op string) (outcome string, ret string) {
	defer func() {
		if x := recover(); x != nil {
			if te, ok := x.(rt.ContextTerminationError); ok {
				outcome = classifyTerm(te.Error())
			} else {
				outcome = "panic"
			}
		}
	}()
	f := strings.Fields(op)
	outcome = "ok"
	switch f[0] {
	case "P":
		def := rt.RuntimeContextDef{
			HardLimits:    rt.RuntimeResources{Cpu: hexu(f[1]), Memory: hexu(f[2])},
			SoftLimits:    rt.RuntimeResources{Cpu: hexu(f[3]), Memory: hexu(f[4])},
			RequiredFlags: rt.ComplianceFlags(hexu(f[5])),
		}
		if f[6] == "1" {
			def.GCPolicy = rt.IsolateGCPolicy
		}
		if len(f) > 8 {
			def.HardLimits.Millis = hexu(f[7])
			def.SoftLimits.Millis = hexu(f[8])
		}
		r.PushContext(def)
	case "T":
		if setFakeClock == nil {
			panic("this binary has no replaceable clock")
		}
		setFakeClock(hexu(f[1]))
	case "O":
		c := r.PopContext()
		if c != nil && fmt.Sprintf("%p", c) != "0x0" {
			ret = " ret=" + ctxDump(c)
		}
	case "C":
		r.RequireCPU(hexu(f[1]))
	case "M":
		r.RequireMem(hexu(f[1]))
	case "R":
		r.ReleaseMem(hexu(f[1]))
	case "S":
		r.SetStopLevel(rt.StopLevel(hexu(f[1])))
	default:
		panic("bad op " + op)
	}
	return
}

func ctxEngine(in *bufio.Scanner, out *bufio.Writer, args []string) {
	ctxTimed = len(args) > 0 && args[0] == "timed"
	for in.Scan() {
		line := in.Text()
		i := strings.IndexByte(line, ' ')
		if i < 0 {
			continue
		}
		id, rest := line[:i], line[i+1:]
		if ctxTimed && setFakeClock != nil {
			setFakeClock(0)
		}
		r := rt.New(nil)
		var outs []string
		for _, op := range strings.Split(rest, ";") {
			op = strings.TrimSpace(op)
			if op == "" {
				continue
			}
			o, ret := ctxApply(r, op)
			outs = append(outs, o+" "+chainDump(r)+ret)
		}
		fmt.Fprintf(out, "%s %s\n", id, strings.Join(outs, "|"))
	}
}
