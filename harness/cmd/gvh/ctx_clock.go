//go:build verifclock

package main

// Built only by lib/vlib.py clock_overlay(): /repo/runtime/runtimecontextmanager.go is replaced AT BUILD TIME
// (go build -overlay, /repo itself untouched) by a copy, regenerated from the current source on every run, in
// which now() consults rt.VerifClock first.

import (
	"gvharness/hx"

	rt "github.com/arnodel/golua/runtime"
)

var fakeNow uint64

func init() {
	rt.VerifClock = func() uint64 { return fakeNow }
	setFakeClock = func(v uint64) { fakeNow = v }
	// Lua programs of the "lua" engine get setclock(ms): the clock starts at 0 for every case
	hx.ExtraSetup = func(r *rt.Runtime) {
		fakeNow = 0
		f := r.SetEnvGoFunc(r.GlobalEnv(), "setclock", func(t *rt.Thread, c *rt.GoCont) (rt.Cont, error) {
			n, err := c.IntArg(0)
			if err != nil {
				return nil, err
			}
			fakeNow = uint64(n)
			return c.Next(), nil
		}, 1, false)
		rt.SolemnlyDeclareCompliance(rt.ComplyCpuSafe|rt.ComplyMemSafe|rt.ComplyTimeSafe|rt.ComplyIoSafe, f)
	}
}
