// gvh-flags — dynamic tie of C08 (compliance flags gate every Go function).
//
//	gvh-flags enum <sentinel dir>
//	    builds a runtime with the whole standard library and lists every Go function
//	    reachable from _G (hence package.loaded), the string and file metatables, the
//	    context/resources metatables and the iterator factories:
//	      F <hex Lua expression that evaluates to it> <Go function name> <name given to Lua> <declared flags>
//	    (the declared flags, the name and the Go function are read from the GoFunction
//	    value itself by reflection — no hook in /repo needed)
//
//	gvh-flags run <sentinel dir>
//	    the "lua" engine of hx (one fresh runtime per case, same line protocol) with
//	    stdin detached from the case stream, the working directory set to the sentinel
//	    directory, and a digest of that directory appended to every result line:
//	      <id> <status> T:.. R:.. E:.. O:.. X:.. S:<digest>
//	    when the digest changed the sentinel is restored before the next case.
package main

import (
	"bufio"
	"crypto/sha256"
	"encoding/hex"
	"errors"
	"fmt"
	"os"
	"path/filepath"
	"reflect"
	"runtime"
	"sort"
	"strings"
	"syscall"

	"gvharness/hx"

	"github.com/arnodel/golua/lib"
	"github.com/arnodel/golua/lib/golib"
	rt "github.com/arnodel/golua/runtime"
	"github.com/arnodel/golua/safeio"
)

const canary = "canary-content\n"

func restore(dir string) {
	ents, _ := os.ReadDir(dir)
	for _, e := range ents {
		if e.Name() != "canary" && e.Name() != "gvmod.lua" {
			os.RemoveAll(filepath.Join(dir, e.Name()))
		}
	}
	os.WriteFile(filepath.Join(dir, "canary"), []byte(canary), 0o644)
	os.Chmod(filepath.Join(dir, "canary"), 0o644)
	os.WriteFile(filepath.Join(dir, "gvmod.lua"), []byte("return 42\n"), 0o644)
}

func digest(dir string) string {
	h := sha256.New()
	ents, _ := os.ReadDir(dir)
	names := []string{}
	for _, e := range ents {
		names = append(names, e.Name())
	}
	sort.Strings(names)
	for _, n := range names {
		st, err := os.Lstat(filepath.Join(dir, n))
		if err != nil {
			continue
		}
		fmt.Fprintf(h, "%s|%d|%v|", n, st.Size(), st.Mode())
		if st.Mode().IsRegular() {
			b, _ := os.ReadFile(filepath.Join(dir, n))
			h.Write(b)
		}
	}
	return hex.EncodeToString(h.Sum(nil))[:16]
}

type seed struct{ expr string }

var seeds = []string{
	`_G`,
	`getmetatable("")`,
	`getmetatable(io.stdout)`,
	`(string.gmatch("a","a"))`,
	`(utf8.codes("a"))`,
	`(coroutine.wrap(function() end))`,
	`(ipairs({}))`,
	`(pairs({}))`,
	`(io.lines("canary"))`,
	`(io.stdout:lines())`,
	`runtime.context()`,
	`runtime.context().used`,
	`runtime.context().killnow`,
	`runtime.context().stopnow`,
	`package.searchers`,
	`debug.traceback`,
	// functions no Lua value of a fresh runtime leads to: the metamethods of Go values (the
	// harness creates one through the Go API, global __gv) and the loader package.searchers[2] returns
	`getmetatable(__gv)`,
	`(select(1, package.searchers[2]("gvmod")))`,
}

// setup runs on every fresh runtime after the libraries are loaded.
func setup(r *rt.Runtime) {
	r.SetEnv(r.GlobalEnv(), "__gv", golib.NewGoValue(r, map[string]int{"a": 1}))
}

func goFuncInfo(g *rt.GoFunction) (goName, luaName string, flags uint64) {
	v := reflect.ValueOf(g).Elem()
	luaName = v.FieldByName("name").String()
	flags = v.FieldByName("safetyFlags").Uint()
	pc := v.FieldByName("f").Pointer()
	if fn := runtime.FuncForPC(pc); fn != nil {
		goName = fn.Name()
	}
	return
}

func isIdent(s string) bool {
	if s == "" {
		return false
	}
	for i, c := range s {
		if !(c == '_' || (c >= 'a' && c <= 'z') || (c >= 'A' && c <= 'Z') || (i > 0 && c >= '0' && c <= '9')) {
			return false
		}
	}
	switch s {
	case "and", "break", "do", "else", "elseif", "end", "false", "for", "function", "goto", "if", "in", "local", "nil", "not", "or",
		"repeat", "return", "then", "true", "until", "while":
		return false
	}
	return true
}

func enum(out *bufio.Writer) {
	r := rt.New(os.Stdout)
	cleanup := lib.LoadAll(r)
	defer cleanup()
	setup(r)
	t := r.MainThread()
	type item struct {
		v    rt.Value
		expr string
	}
	var queue []item
	for _, s := range seeds {
		clos, err := t.LoadFromSourceOrCode("seed", []byte("return "+s), "t", rt.TableValue(r.GlobalEnv()), false)
		if err != nil {
			fmt.Fprintf(out, "E seed %s: %v\n", s, err)
			continue
		}
		term := rt.NewTerminationWith(nil, 1, false)
		if err := rt.Call(t, rt.FunctionValue(clos), nil, term); err != nil {
			fmt.Fprintf(out, "E seed %s: %v\n", s, err)
			continue
		}
		queue = append(queue, item{term.Get(0), s})
	}
	seenT := map[interface{}]bool{}
	seenF := map[*rt.GoFunction]bool{}
	for len(queue) > 0 {
		it := queue[0]
		queue = queue[1:]
		switch it.v.Type() {
		case rt.FunctionType:
			if g, ok := it.v.Interface().(*rt.GoFunction); ok && !seenF[g] {
				seenF[g] = true
				gn, ln, fl := goFuncInfo(g)
				fmt.Fprintf(out, "F %s %s %s %d\n", hex.EncodeToString([]byte(it.expr)), gn, ln, fl)
			}
		case rt.TableType:
			tb := it.v.AsTable()
			if seenT[tb] {
				continue
			}
			seenT[tb] = true
			if mt := tb.Metatable(); mt != nil {
				queue = append(queue, item{rt.TableValue(mt), "getmetatable(" + it.expr + ")"})
			}
			type kv struct {
				k string
				v rt.Value
				i bool
				n int64
			}
			var kvs []kv
			k := rt.NilValue
			for {
				nk, nv, ok := tb.Next(k)
				if !ok || nk.IsNil() {
					break
				}
				k = nk
				if s, ok := nk.TryString(); ok {
					kvs = append(kvs, kv{k: s, v: nv})
				} else if n, ok := nk.TryInt(); ok {
					kvs = append(kvs, kv{i: true, n: n, v: nv})
				}
			}
			sort.Slice(kvs, func(a, b int) bool {
				if kvs[a].i != kvs[b].i {
					return kvs[b].i
				}
				if kvs[a].i {
					return kvs[a].n < kvs[b].n
				}
				return kvs[a].k < kvs[b].k
			})
			for _, e := range kvs {
				var ex string
				switch {
				case e.i:
					ex = fmt.Sprintf("%s[%d]", it.expr, e.n)
				case isIdent(e.k):
					ex = it.expr + "." + e.k
				default:
					ex = fmt.Sprintf("%s[%q]", it.expr, e.k)
				}
				queue = append(queue, item{e.v, ex})
			}
		case rt.UserDataType:
			u := it.v.AsUserData()
			if seenT[u] {
				continue
			}
			seenT[u] = true
			if mt := u.Metatable(); mt != nil {
				queue = append(queue, item{rt.TableValue(mt), "getmetatable(" + it.expr + ")"})
			}
		}
	}
}

// safeioSweep calls the four safeio entry points directly (Go API) inside Thread.CallContext with and without the
// iosafe requirement, for EVERY flag word os.OpenFile distinguishes here: 3 access modes x all subsets of
// {O_CREATE, O_TRUNC, O_APPEND, O_EXCL, O_SYNC}, on an existing and on a new name.
//
//	G <required flags> <operation> <flag word hex> <name> refused|performed|oserror:<msg> <1 if the sentinel changed>
func safeioSweep(out *bufio.Writer, dir string) {
	r := rt.New(nil)
	cleanup := lib.LoadAll(r)
	defer cleanup()
	t := r.MainThread()
	classify := func(err error) string {
		switch {
		case err == nil:
			return "performed"
		case errors.Is(err, safeio.ErrNotAllowed):
			return "refused"
		}
		return "oserror:" + strings.ReplaceAll(err.Error(), " ", "_")
	}
	opts := []int{os.O_CREATE, os.O_TRUNC, os.O_APPEND, os.O_EXCL, os.O_SYNC}
	for _, req := range []rt.ComplianceFlags{0, rt.ComplyIoSafe, rt.ComplyIoSafe | rt.ComplyCpuSafe | rt.ComplyMemSafe | rt.ComplyTimeSafe} {
		t.CallContext(rt.RuntimeContextDef{RequiredFlags: req}, func() error {
			line := func(op string, flag int, name string, err error, base string) {
				ch := 0
				if digest(dir) != base {
					ch = 1
				}
				fmt.Fprintf(out, "G %d %s %x %s %s %d\n", req, op, flag, name, classify(err), ch)
			}
			for _, acc := range []int{os.O_RDONLY, os.O_WRONLY, os.O_RDWR} {
				for mask := 0; mask < 1<<len(opts); mask++ {
					flag := acc
					for i, o := range opts {
						if mask&(1<<i) != 0 {
							flag |= o
						}
					}
					for _, name := range []string{"canary", "gvnew"} {
						restore(dir)
						base := digest(dir)
						f, err := safeio.OpenFile(r, name, flag, 0o644)
						if f != nil {
							f.Close()
						}
						line("OpenFile", flag, name, err, base)
					}
				}
			}
			restore(dir)
			base := digest(dir)
			f, err := safeio.TempFile(r, ".", "gvtmp")
			if f != nil {
				f.Close()
			}
			line("TempFile", 0, "gvtmp", err, base)
			restore(dir)
			base = digest(dir)
			line("RemoveFile", 0, "canary", safeio.RemoveFile(r, "canary"), base)
			restore(dir)
			base = digest(dir)
			line("RenameFile", 0, "canary", safeio.RenameFile(r, "canary", "canary2"), base)
			restore(dir)
			return nil
		})
	}
}

func main() {
	if len(os.Args) < 3 {
		fmt.Fprintln(os.Stderr, "usage: gvh-flags enum|run <sentinel dir>")
		os.Exit(2)
	}
	dir := os.Args[2]
	os.MkdirAll(dir, 0o755)
	restore(dir)
	if err := os.Chdir(dir); err != nil {
		fmt.Fprintln(os.Stderr, err)
		os.Exit(2)
	}
	// the case stream stays with us; Lua's io.stdin / dofile() see /dev/null
	caseIn := os.Stdin
	if null, err := os.Open("/dev/null"); err == nil {
		os.Stdin = null
	}
	// Lua's io.stdout must not write into the protocol stream
	realOut := os.Stdout
	if null, err := os.OpenFile("/dev/null", os.O_WRONLY, 0); err == nil {
		os.Stdout = null
	}
	out := bufio.NewWriterSize(realOut, 1<<16)
	defer out.Flush()
	switch os.Args[1] {
	case "enum":
		enum(out)
	case "safeio":
		safeioSweep(out, dir)
	case "run":
		in := bufio.NewScanner(caseIn)
		in.Buffer(make([]byte, 1<<20), 1<<26)
		base := digest(dir)
		for in.Scan() {
			line := in.Text()
			if strings.TrimSpace(line) == "" {
				continue
			}
			lc, ok := hx.ParseLuaCase(line)
			if !ok {
				continue
			}
			lc.Setup = setup
			res := hx.RunLuaCase(lc)
			// processes started by the case (io.popen) run asynchronously: wait for them so that
			// what they do to the sentinel is attributed to this case
			nchild := 0
			for {
				var ws syscall.WaitStatus
				pid, err := syscall.Wait4(-1, &ws, 0, nil)
				if err != nil || pid <= 0 {
					break
				}
				nchild++
			}
			d := digest(dir)
			if nchild > 0 {
				d += fmt.Sprintf(",children=%d", nchild)
			}
			fmt.Fprintf(out, "%s S:%s\n", hx.FormatLuaResult(lc.Id, res), d)
			out.Flush()
			if d != base {
				restore(dir)
			}
		}
	}
}
