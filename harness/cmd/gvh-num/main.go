// gvh-num — Go side of the "num" engine (properties C02 and C16).
//
//	gvh-num ops   : one number operation per line, evaluated three ways
//	   input : <id> <op> <v1> [<v2>]          values: I<hex, sign as leading -> | F<16 hex IEEE bits> | S<hex bytes> | N
//	   output: <id> D:<r> A:<r> L:<r>
//	           D = exported/hooked Go function called directly
//	           A = compiled Lua chunk "local a,b=...; return a OP b" with the operands as arguments
//	           L = compiled Lua chunk "return <lit a> OP <lit b>" with the operands as literals (constant folding)
//	           r = value | value,value | E<class> | - (not applicable)
//	gvh-num str   : <id> <hex string> [base]  -> <id> D:<StringToNumber> T:<tonumber(s[,base])> L:<load("return "..s)> U:<ToNumberValue / ToInt>
//	gvh-num for   : <id> <start> <limit> <step> <cap> [assign]  -> <id> <status> T:<v;v;...> E:<class>
//	gvh-num prog  : <id> <hex source> [args=v,v,..] -> <id> <status> T:<events> R:<results> E:.. O:.. X:..   (hx.LuaEngine)
//	gvh-num f2i   : <id> F<bits> -> <id> I<int64(f)> (samples the platform assumption on float->int conversion)
package main

import (
	"bufio"
	"encoding/hex"
	"fmt"
	"math"
	"os"
	"strconv"
	"strings"

	"gvharness/hx"

	"github.com/arnodel/golua/lib"
	rt "github.com/arnodel/golua/runtime"
)

func parseVal(s string) rt.Value {
	switch s[0] {
	case 'I':
		neg := false
		h := s[1:]
		if h[0] == '-' {
			neg = true
			h = h[1:]
		}
		u, err := strconv.ParseUint(h, 16, 64)
		if err != nil {
			panic("bad int " + s)
		}
		if neg {
			return rt.IntValue(-int64(u))
		}
		return rt.IntValue(int64(u))
	case 'F':
		if s == "Fnan" {
			return rt.FloatValue(math.NaN())
		}
		u, err := strconv.ParseUint(s[1:], 16, 64)
		if err != nil {
			panic("bad float " + s)
		}
		return rt.FloatValue(math.Float64frombits(u))
	case 'S':
		if s == "S-" {
			return rt.StringValue("")
		}
		b, err := hex.DecodeString(s[1:])
		if err != nil {
			panic("bad string " + s)
		}
		return rt.StringValue(string(b))
	case 'N':
		return rt.NilValue
	case 'B':
		return rt.BoolValue(s == "B1")
	}
	panic("bad value " + s)
}

func fmtInt(n int64) string {
	if n < 0 {
		return "I-" + strconv.FormatUint(uint64(-n), 16)
	}
	return "I" + strconv.FormatUint(uint64(n), 16)
}

func fmtVal(v rt.Value) string {
	switch v.Type() {
	case rt.NilType:
		return "N"
	case rt.BoolType:
		if v.AsBool() {
			return "B1"
		}
		return "B0"
	case rt.IntType:
		return fmtInt(v.AsInt())
	case rt.FloatType:
		f := v.AsFloat()
		if f != f {
			return "Fnan"
		}
		return fmt.Sprintf("F%016x", math.Float64bits(f))
	case rt.StringType:
		if v.AsString() == "" {
			return "S-"
		}
		return "S" + hex.EncodeToString([]byte(v.AsString()))
	}
	return "?" + v.TypeName()
}

func fmtVals(vs []rt.Value) string {
	if len(vs) == 0 {
		return "-"
	}
	p := make([]string, len(vs))
	for i, v := range vs {
		p[i] = fmtVal(v)
	}
	return strings.Join(p, ",")
}

// error classes
func errClass(err error) string {
	msg := err.Error()
	// strip "chunk:1: " position prefix
	switch {
	case strings.Contains(msg, "attempt to divide by zero"):
		return "Edivzero"
	case strings.Contains(msg, "attempt to perform 'n%"):
		return "Emodzero"
	case strings.Contains(msg, "number has no integer representation"):
		return "Enoint"
	case strings.Contains(msg, "'for' step is zero"):
		return "Eforzero"
	case strings.Contains(msg, "'for' initial value"):
		return "Eforinit"
	case strings.Contains(msg, "'for' limit"):
		return "Eforlimit"
	case strings.Contains(msg, "'for' step"):
		return "Eforstep"
	}
	return "Eother:" + hex.EncodeToString([]byte(msg))
}

func litOf(v rt.Value) string {
	switch v.Type() {
	case rt.IntType:
		n := v.AsInt()
		if n == math.MinInt64 {
			return "(-9223372036854775807-1)"
		}
		if n < 0 {
			return "(" + strconv.FormatInt(n, 10) + ")"
		}
		return strconv.FormatInt(n, 10)
	case rt.FloatType:
		f := v.AsFloat()
		switch {
		case f != f:
			return "(0/0)"
		case math.IsInf(f, 1):
			return "(1/0)"
		case math.IsInf(f, -1):
			return "(-1/0)"
		case f == 0 && math.Signbit(f):
			return "(-0x0p+0)"
		case f < 0:
			return "(" + strconv.FormatFloat(f, 'x', -1, 64) + ")"
		}
		return strconv.FormatFloat(f, 'x', -1, 64)
	case rt.StringType:
		// long-bracket free rendering: decimal escapes
		var b strings.Builder
		b.WriteByte('"')
		for _, c := range []byte(v.AsString()) {
			fmt.Fprintf(&b, "\\%03d", c)
		}
		b.WriteByte('"')
		return b.String()
	case rt.NilType:
		return "nil"
	case rt.BoolType:
		if v.AsBool() {
			return "true"
		}
		return "false"
	}
	panic("no literal")
}

// Lua spelling of each operation, %s placeholders for operands
var luaOps = map[string]string{
	"add": "%s + %s", "sub": "%s - %s", "mul": "%s * %s", "div": "%s / %s", "idiv": "%s // %s", "mod": "%s %% %s",
	"pow": "%s ^ %s", "lt": "%s < %s", "le": "%s <= %s", "eq": "%s == %s", "gt": "%s > %s", "ge": "%s >= %s", "ne": "%s ~= %s",
	"band": "%s & %s", "bor": "%s | %s", "bxor": "%s ~ %s", "shl": "%s << %s", "shr": "%s >> %s",
	"unm": "- %s", "bnot": "~ %s",
	"abs": "math.abs(%s)", "floor": "math.floor(%s)", "ceil": "math.ceil(%s)", "fmod": "math.fmod(%s, %s)",
	"tointeger": "math.tointeger(%s)", "ult": "math.ult(%s, %s)", "max": "math.max(%s, %s)", "min": "math.min(%s, %s)",
	"modf": "math.modf(%s)", "mtype": "math.type(%s)", "tonumber": "tonumber(%s)", "tostring": "tostring(%s)",
	"fdivint": "%s // 1", "concat0": "%s .. ''",
	"keytype": "(function(k) local t = {} t[k] = true return math.type((next(t))) end)(%s)",
	"randok":  "(pcall(math.random, %s))",
}

type env struct {
	r     *rt.Runtime
	t     *rt.Thread
	cache map[string]*rt.Closure
}

func newEnv() *env {
	r := rt.New(os.Stderr)
	lib.LoadAll(r)
	return &env{r: r, t: r.MainThread(), cache: map[string]*rt.Closure{}}
}

func (e *env) runChunk(key string, src string, args []rt.Value, cacheIt bool) (res string) {
	defer func() {
		if x := recover(); x != nil {
			res = "Epanic:" + hex.EncodeToString([]byte(fmt.Sprint(x)))
		}
	}()
	var clos *rt.Closure
	if cacheIt {
		clos = e.cache[key]
	}
	if clos == nil {
		var err error
		clos, err = e.t.LoadFromSourceOrCode("c", []byte(src), "t", rt.TableValue(e.r.GlobalEnv()), false)
		if err != nil {
			return "Ecompile:" + hex.EncodeToString([]byte(err.Error()))
		}
		if cacheIt {
			e.cache[key] = clos
		}
	}
	term := rt.NewTerminationWith(nil, 0, true)
	if err := rt.Call(e.t, rt.FunctionValue(clos), args, term); err != nil {
		return errClass(err)
	}
	return fmtVals(term.Etc())
}

func boolRes(b bool, err error) string {
	if err != nil {
		return errClass(err)
	}
	return fmtVal(rt.BoolValue(b))
}

func valRes(v rt.Value, err error) string {
	if err != nil {
		return errClass(err)
	}
	return fmtVal(v)
}

func valOk(v rt.Value, ok bool) string {
	if !ok {
		return "Eother:"
	}
	return fmtVal(v)
}

func valOkErr(v rt.Value, ok bool, err error) string {
	if err != nil {
		return errClass(err)
	}
	if !ok {
		return "Eother:"
	}
	return fmtVal(v)
}

func (e *env) direct(op string, a, b rt.Value) string {
	t := e.t
	switch op {
	case "add":
		return valOk(rt.Add(a, b))
	case "sub":
		return valOk(rt.Sub(a, b))
	case "mul":
		return valOk(rt.Mul(a, b))
	case "div":
		return valOk(rt.Div(a, b))
	case "pow":
		return valOk(rt.Pow(a, b))
	case "idiv":
		return valOkErr(rt.Idiv(a, b))
	case "mod":
		return valOkErr(rt.Mod(a, b))
	case "unm":
		return valOk(rt.Unm(a))
	case "lt":
		return boolRes(rt.Lt(t, a, b))
	case "gt":
		return boolRes(rt.Lt(t, b, a))
	case "le":
		return boolRes(rt.VerifLe(t, a, b))
	case "ge":
		return boolRes(rt.VerifLe(t, b, a))
	case "eq":
		return boolRes(rt.VerifEq(t, a, b))
	case "ne":
		r, err := rt.VerifEq(t, a, b)
		return boolRes(!r, err)
	case "band":
		return valRes(rt.VerifBand(t, a, b))
	case "bor":
		return valRes(rt.VerifBor(t, a, b))
	case "bxor":
		return valRes(rt.VerifBxor(t, a, b))
	case "shl":
		return valRes(rt.VerifShl(t, a, b))
	case "shr":
		return valRes(rt.VerifShr(t, a, b))
	case "bnot":
		return valRes(rt.VerifBnot(t, a))
	case "tointeger":
		n, ok := rt.ToInt(a)
		if !ok {
			return "N"
		}
		return fmtInt(n)
	}
	return "-"
}

func opsEngine(in *bufio.Scanner, out *bufio.Writer) {
	e := newEnv()
	for in.Scan() {
		f := strings.Fields(in.Text())
		if len(f) < 3 {
			continue
		}
		id, op := f[0], f[1]
		a := parseVal(f[2])
		b := rt.NilValue
		args := []rt.Value{a}
		if len(f) > 3 {
			b = parseVal(f[3])
			args = append(args, b)
		}
		tpl, ok := luaOps[op]
		if !ok {
			fmt.Fprintf(out, "%s D:- A:- L:-\n", id)
			continue
		}
		d := e.direct(op, a, b)
		var asrc, lsrc string
		if len(args) == 2 {
			asrc = "local a, b = ...; return " + fmt.Sprintf(tpl, "a", "b")
			lsrc = "return " + fmt.Sprintf(tpl, litOf(a), litOf(b))
		} else {
			asrc = "local a = ...; return " + fmt.Sprintf(tpl, "a")
			lsrc = "return " + fmt.Sprintf(tpl, litOf(a))
		}
		ar := e.runChunk(op, asrc, args, true)
		lr := "-"
		if len(f) <= 4 || f[4] != "nolit" {
			lr = e.runChunk("", lsrc, nil, false)
		}
		fmt.Fprintf(out, "%s D:%s A:%s L:%s\n", id, d, ar, lr)
	}
}

func numRes(n int64, f float64, tp rt.NumberType) string {
	switch tp {
	case rt.IsInt:
		return fmtInt(n)
	case rt.IsFloat:
		return fmtVal(rt.FloatValue(f))
	}
	return "N"
}

func strEngine(in *bufio.Scanner, out *bufio.Writer) {
	e := newEnv()
	for in.Scan() {
		f := strings.Fields(in.Text())
		if len(f) < 2 {
			continue
		}
		id := f[0]
		var s string
		if f[1] != "-" {
			b, err := hex.DecodeString(f[1])
			if err != nil {
				panic(err)
			}
			s = string(b)
		}
		sv := rt.StringValue(s)
		if len(f) > 2 {
			// tonumber(s, base)
			base, _ := strconv.ParseInt(f[2], 10, 64)
			tr := e.runChunk("tonumber2", "local s, b = ...; return tonumber(s, b)", []rt.Value{sv, rt.IntValue(base)}, true)
			fmt.Fprintf(out, "%s T:%s\n", id, tr)
			continue
		}
		d := numRes(rt.StringToNumber(s))
		tr := e.runChunk("tonumber", "local s = ...; return tonumber(s)", []rt.Value{sv}, true)
		// the string as a numeral in source text (only meaningful if it lexes as one token; the caller decides)
		lr := e.runChunk("", "return "+s, nil, false)
		// string arithmetic coercion and ToInt
		ar := e.runChunk("coerce", "local s = ...; return s + 0", []rt.Value{sv}, true)
		ti := "N"
		if n, ok := rt.ToInt(sv); ok {
			ti = fmtInt(n)
		}
		br := e.runChunk("bor0", "local s = ...; return s | 0", []rt.Value{sv}, true)
		errE := func(r string) string {
			if strings.HasPrefix(r, "E") {
				return "E"
			}
			return r
		}
		mf := errE(e.runChunk("smodf", "local s = ...; return math.modf(s)", []rt.Value{sv}, true))
		fl := errE(e.runChunk("sfloor", "local s = ...; return math.floor(s)", []rt.Value{sv}, true))
		ab := errE(e.runChunk("sabs", "local s = ...; return math.abs(s)", []rt.Value{sv}, true))
		fmt.Fprintf(out, "%s D:%s T:%s L:%s A:%s I:%s O:%s MF:%s FL:%s AB:%s\n", id, d, tr, lr, ar, ti, br, mf, fl, ab)
	}
}

func forEngine(in *bufio.Scanner, out *bufio.Writer) {
	e := newEnv()
	var trace []string
	var count, capN int
	emit := func(t *rt.Thread, c *rt.GoCont) (rt.Cont, error) {
		v := c.Arg(0)
		trace = append(trace, fmtVal(v))
		count++
		stop := rt.BoolValue(count >= capN)
		return c.PushingNext1(t.Runtime, stop), nil
	}
	e.r.SetEnvGoFunc(e.r.GlobalEnv(), "emit", emit, 1, false)
	srcPlain := "local a, b, c = ...; for i = a, b, c do if emit(i) then return 'capped' end end return 'done'"
	srcAssign := "local a, b, c = ...; for i = a, b, c do local stop = emit(i); i = 0; i = nil; if stop then return 'capped' end end return 'done'"
	srcNoStep := "local a, b = ...; for i = a, b do if emit(i) then return 'capped' end end return 'done'"
	for in.Scan() {
		f := strings.Fields(in.Text())
		if len(f) < 5 {
			continue
		}
		id := f[0]
		a, b := parseVal(f[1]), parseVal(f[2])
		capN, _ = strconv.Atoi(f[4])
		trace = trace[:0]
		count = 0
		mode := "plain"
		if len(f) > 5 {
			mode = f[5]
		}
		var r string
		switch {
		case f[3] == "-":
			r = e.runChunk("fornostep", srcNoStep, []rt.Value{a, b}, true)
		case mode == "assign":
			r = e.runChunk("forassign", srcAssign, []rt.Value{a, b, parseVal(f[3])}, true)
		case mode == "lit":
			src := fmt.Sprintf("for i = %s, %s, %s do if emit(i) then return 'capped' end end return 'done'", litOf(a), litOf(b), litOf(parseVal(f[3])))
			r = e.runChunk("", src, nil, false)
		default:
			r = e.runChunk("forplain", srcPlain, []rt.Value{a, b, parseVal(f[3])}, true)
		}
		status := r
		switch r {
		case "S" + hex.EncodeToString([]byte("capped")):
			status = "capped"
		case "S" + hex.EncodeToString([]byte("done")):
			status = "done"
		}
		tr := "-"
		if len(trace) > 0 {
			tr = strings.Join(trace, ";")
		}
		fmt.Fprintf(out, "%s %s T:%s\n", id, status, tr)
	}
}

func f2iEngine(in *bufio.Scanner, out *bufio.Writer) {
	for in.Scan() {
		f := strings.Fields(in.Text())
		if len(f) < 2 {
			continue
		}
		v := parseVal(f[1])
		x := v.AsFloat()
		n := int64(x)
		fmt.Fprintf(out, "%s %s %s\n", f[0], fmtInt(n), fmtVal(rt.FloatValue(float64(n))))
	}
}

func main() {
	if len(os.Args) < 2 {
		fmt.Fprintln(os.Stderr, "usage: gvh-num ops|str|for|f2i")
		os.Exit(2)
	}
	in := bufio.NewScanner(os.Stdin)
	in.Buffer(make([]byte, 1<<20), 1<<26)
	out := bufio.NewWriterSize(os.Stdout, 1<<20)
	defer out.Flush()
	switch os.Args[1] {
	case "ops":
		opsEngine(in, out)
	case "str":
		strEngine(in, out)
	case "for":
		forEngine(in, out)
	case "f2i":
		f2iEngine(in, out)
	case "prog":
		// whole Lua programs (hx engine "lua": fresh runtime per case, emit() records events)
		hx.LuaEngine(in, out, nil)
	default:
		fmt.Fprintln(os.Stderr, "unknown engine", os.Args[1])
		os.Exit(2)
	}
}
