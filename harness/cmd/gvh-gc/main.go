// gvh-gc — Go side of the C18 checks.
//
//   gvh-gc pool : histories of calls on a real luagc.ClonePool
//       input : <id> op;op;...   with op = M <key> <flags> | G <key> | PF | PR | AF | AR   (numbers in hex)
//       output: <id> <res>/<res>/... S:<state>
//               res   = <vals>|<setFinalizer calls>|<panic 0/1>, vals = k,k,.. or -, calls = k+,k-,.. or -
//               state = <closed 0/1>,<lastMarkOrder>,<reg sorted by order: k:ord:fin:rel ..>,<pendF>,<pendR>
//       runtime.SetFinalizer is replaced (hook) by a recorder, so nothing depends on the real collector;
//       G calls the unexported goFinalizer through the hook.
//
//   gvh-gc lua : Lua programs on a real runtime with logging finalisers / releasers
//       input : <id> <hex source> [gcwait=1] [close=0]
//       output: <id> <status> L:<log entries ;-separated> E:<hex error>
//       globals: log(s) appends "l:<s>"; mkud(name[, mt]) creates a userdata whose Go value logs "rel:<name>"
//       when ReleaseResources is called; gcmt(name) returns a metatable whose __gc logs "gc:<name>";
//       after the chunk: (gcwait: runtime.GC() + wait for Go finalisers) then "close" marker and Runtime.Close.
package main

import (
	"bufio"
	"bytes"
	"encoding/hex"
	"fmt"
	"os"
	"reflect"
	goruntime "runtime"
	"sort"
	"strconv"
	"strings"
	"time"

	"github.com/arnodel/golua/lib"
	rt "github.com/arnodel/golua/runtime"
)

type tval struct{ key int }

func (v *tval) Key() rt.VerifGCKey     { return v.key }
func (v *tval) Clone() rt.VerifGCValue { return &tval{key: v.key} }

func hx(s string) int {
	n, err := strconv.ParseInt(s, 16, 64)
	if err != nil {
		panic("bad hex " + s)
	}
	return int(n)
}

func entStr(es []rt.VerifGCEntry) string {
	if len(es) == 0 {
		return "-"
	}
	parts := make([]string, len(es))
	for i, e := range es {
		f, r := 0, 0
		if e.Finalized {
			f = 1
		}
		if e.Released {
			r = 1
		}
		parts[i] = fmt.Sprintf("%x:%x:%d:%d", e.Key.(int), e.MarkOrder, f, r)
	}
	return strings.Join(parts, " ")
}

func valsStr(vs []rt.VerifGCValue) string {
	if len(vs) == 0 {
		return "-"
	}
	parts := make([]string, len(vs))
	for i, v := range vs {
		parts[i] = fmt.Sprintf("%x", v.(*tval).key)
	}
	return strings.Join(parts, ",")
}

func poolEngine(in *bufio.Scanner, out *bufio.Writer) {
	var calls []string
	restore := rt.VerifSetFinalizerHook(func(obj interface{}, fin interface{}) {
		k := obj.(*tval).key
		if fin == nil {
			calls = append(calls, fmt.Sprintf("%x-", k))
		} else {
			calls = append(calls, fmt.Sprintf("%x+", k))
		}
	})
	defer restore()
	for in.Scan() {
		line := in.Text()
		i := strings.IndexByte(line, ' ')
		if i < 0 {
			continue
		}
		id, rest := line[:i], line[i+1:]
		p := rt.VerifNewClonePool()
		vals := map[int]*tval{}
		get := func(k int) *tval {
			if v, ok := vals[k]; ok {
				return v
			}
			v := &tval{key: k}
			vals[k] = v
			return v
		}
		var results []string
		for _, op := range strings.Split(rest, ";") {
			f := strings.Fields(op)
			if len(f) == 0 {
				continue
			}
			calls = calls[:0]
			var ret []rt.VerifGCValue
			panicked := 0
			func() {
				defer func() {
					if x := recover(); x != nil {
						panicked = 1
					}
				}()
				switch f[0] {
				case "M":
					p.Mark(get(hx(f[1])), rt.VerifMarkFlags(hx(f[2])))
				case "G":
					p.VerifGoFinalizer(get(hx(f[1])))
				case "PF":
					ret = p.ExtractPendingFinalize()
				case "PR":
					ret = p.ExtractPendingRelease()
				case "AF":
					ret = p.ExtractAllMarkedFinalize()
				case "AR":
					ret = p.ExtractAllMarkedRelease()
				default:
					panic("bad op " + op)
				}
			}()
			cs := "-"
			if len(calls) > 0 {
				cs = strings.Join(calls, ",")
			}
			results = append(results, fmt.Sprintf("%s|%s|%d", valsStr(ret), cs, panicked))
		}
		closed, last, reg, pf, pr := p.VerifState()
		sort.Slice(reg, func(i, j int) bool { return reg[i].MarkOrder < reg[j].MarkOrder })
		c := 0
		if closed {
			c = 1
		}
		fmt.Fprintf(out, "%s %s S:%d,%x,%s,%s,%s\n", id, strings.Join(results, "/"), c, last, entStr(reg), entStr(pf), entStr(pr))
		out.Flush()
	}
}

// ---------------------------------------------------------------- stack of pools

//   gvh-gc stack : the call sequences of runtimecontextmanager.go / thread.go / runtime.go on a stack of real
//   ClonePools linked with SetParent (as PushContext does)
//       input : <id> op;op;..  op = P1|P0 (push isolating/sharing) | M <k> <fl> | G <depth> <k> | RP | X0|X1 (exit normal/killed) | CL
//       output: <id> <events oldest first: P<h> M<h>:<k>:<fl> F<h>:<k> R<h>:<k>> S:<state of each live pool, innermost first, '/'-separated>
type sframe struct {
	p     *rt.VerifClonePool
	share int
}

func poolSig(p *rt.VerifClonePool) string {
	closed, last, reg, pf, pr := p.VerifState()
	return fmt.Sprintf("%v,%d,%d,%d,%d", closed, last, len(reg), len(pf), len(pr))
}

func poolState(p *rt.VerifClonePool) string {
	closed, last, reg, pf, pr := p.VerifState()
	sort.Slice(reg, func(i, j int) bool { return reg[i].MarkOrder < reg[j].MarkOrder })
	c := 0
	if closed {
		c = 1
	}
	return fmt.Sprintf("%d,%x,%s,%s,%s", c, last, entStr(reg), entStr(pf), entStr(pr))
}

func stackEngine(in *bufio.Scanner, out *bufio.Writer) {
	restore := rt.VerifSetFinalizerHook(func(obj interface{}, fin interface{}) {})
	defer restore()
	for in.Scan() {
		line := in.Text()
		i := strings.IndexByte(line, ' ')
		if i < 0 {
			continue
		}
		id, rest := line[:i], line[i+1:]
		stack := []*sframe{{p: rt.VerifNewClonePool()}} // outermost first
		vals := map[int]*tval{}
		get := func(k int) *tval {
			if v, ok := vals[k]; ok {
				return v
			}
			v := &tval{key: k}
			vals[k] = v
			return v
		}
		var evs []string
		emit := func(tag string, h int, vs []rt.VerifGCValue) {
			for _, v := range vs {
				evs = append(evs, fmt.Sprintf("%s%d:%x", tag, h, v.(*tval).key))
			}
		}
		exit := func(h int, p *rt.VerifClonePool, killed bool) {
			if !killed {
				emit("F", h, p.ExtractAllMarkedFinalize()) // CallContext: runFinalizers(ExtractAllMarkedFinalize())
			}
			p.ExtractAllMarkedFinalize() // PopContext: result dropped
			emit("R", h, p.ExtractAllMarkedRelease())
		}
		for _, op := range strings.Split(rest, ";") {
			f := strings.Fields(op)
			if len(f) == 0 || len(stack) == 0 {
				continue
			}
			h := len(stack)
			cur := stack[h-1]
			func() {
				defer func() {
					if x := recover(); x != nil {
						evs = append(evs, "PANIC")
					}
				}()
				switch f[0] {
				case "P1":
					np := rt.VerifNewClonePool()
					np.SetParent(cur.p)
					stack = append(stack, &sframe{p: np})
					evs = append(evs, fmt.Sprintf("P%d", h+1))
				case "P0":
					cur.share++
				case "M":
					k, fl := hx(f[1]), hx(f[2])
					before := make([]string, h)
					for j, fr := range stack {
						before[j] = poolSig(fr.p)
					}
					cur.p.Mark(get(k), rt.VerifMarkFlags(fl))
					who := h
					for j, fr := range stack {
						if poolSig(fr.p) != before[j] {
							who = j + 1
							break
						}
					}
					evs = append(evs, fmt.Sprintf("M%d:%x:%x", who, k, fl))
				case "G":
					d, k := hx(f[1]), hx(f[2])
					if d < h {
						stack[h-1-d].p.VerifGoFinalizer(get(k))
					}
				case "RP":
					emit("F", h, cur.p.ExtractPendingFinalize())
					emit("R", h, cur.p.ExtractPendingRelease())
				case "X0", "X1":
					if cur.share > 0 {
						cur.share--
					} else if h > 1 {
						exit(h, cur.p, f[0] == "X1")
						stack = stack[:h-1]
					}
				case "CL":
					for j := h; j >= 1; j-- {
						exit(j, stack[j-1].p, false)
					}
					stack = stack[:0]
				}
			}()
		}
		var sts []string
		for j := len(stack) - 1; j >= 0; j-- {
			sts = append(sts, fmt.Sprintf("%d|%s", stack[j].share, poolState(stack[j].p)))
		}
		es, ss := "-", "-"
		if len(evs) > 0 {
			es = strings.Join(evs, ",")
		}
		if len(sts) > 0 {
			ss = strings.Join(sts, "/")
		}
		fmt.Fprintf(out, "%s %s S:%s\n", id, es, ss)
		out.Flush()
	}
}

// ---------------------------------------------------------------- Lua level

type releaser struct {
	name string
	log  *[]string
}

func (r *releaser) ReleaseResources(d *rt.UserData) { *r.log = append(*r.log, "rel:"+r.name) }

func runLua(src []byte, gcwait bool, doClose bool, reuse bool, mockgc bool, rootcpu uint64) (status string, log []string, errmsg string) {
	var stdout bytes.Buffer
	// mockgc: the Go collector is replaced by a deterministic stand-in.  runtime.SetFinalizer calls of the finaliser
	// pools are recorded (object -> the pool's goFinalizer method value) instead of being made, and the Lua global
	// collect(v, ...) plays the collector: for every argument that has a recorded finaliser it removes it (Go clears a
	// finaliser before running it) and calls it — exactly what the Go runtime does once the value is unreachable.  All
	// arguments of one collect call are collected before the runtime looks at its pending lists again (one batch).
	armed := map[interface{}]interface{}{}
	if mockgc {
		restore := rt.VerifSetFinalizerHook(func(obj interface{}, fin interface{}) {
			if fin == nil {
				delete(armed, obj)
			} else {
				armed[obj] = fin
			}
		})
		defer restore()
	}
	r := rt.New(&stdout)
	cleanup := lib.LoadAll(r)
	defer cleanup()
	env := r.GlobalEnv()
	all := rt.ComplyCpuSafe | rt.ComplyMemSafe | rt.ComplyTimeSafe | rt.ComplyIoSafe
	reg := func(name string, f rt.GoFunctionFunc, nargs int, etc bool) {
		g := r.SetEnvGoFunc(env, name, f, nargs, etc)
		rt.SolemnlyDeclareCompliance(all, g)
	}
	reg("log", func(t *rt.Thread, c *rt.GoCont) (rt.Cont, error) {
		s, _ := c.Arg(0).ToString()
		log = append(log, "l:"+s)
		return c.Next(), nil
	}, 1, false)
	reg("collect", func(t *rt.Thread, c *rt.GoCont) (rt.Cont, error) {
		n := 0
		for _, v := range c.Etc() {
			var obj interface{}
			switch v.Type() {
			case rt.TableType:
				obj = v.AsTable()
			case rt.UserDataType:
				obj = v.AsUserData()
			default:
				continue
			}
			if fin, ok := armed[obj]; ok {
				delete(armed, obj)
				reflect.ValueOf(fin).Call([]reflect.Value{reflect.ValueOf(obj)})
				n++
			}
		}
		return c.PushingNext1(t.Runtime, rt.IntValue(int64(n))), nil
	}, 0, true)
	// mkpair(name, mt): two userdata wrapping the SAME Go value (a pointer: comparable); mkraw(mt): a userdata wrapping a
	// non-comparable Go value (a slice) — what an embedder may legitimately pass to NewUserDataValue
	reg("mkpair", func(t *rt.Thread, c *rt.GoCont) (rt.Cont, error) {
		name, _ := c.Arg(0).ToString()
		meta, _ := c.Arg(1).TryTable()
		shared := &releaser{name: name, log: &log}
		return c.PushingNext(t.Runtime, t.NewUserDataValue(shared, meta), t.NewUserDataValue(shared, meta)), nil
	}, 2, false)
	reg("mkraw", func(t *rt.Thread, c *rt.GoCont) (rt.Cont, error) {
		meta, _ := c.Arg(0).TryTable()
		return c.PushingNext1(t.Runtime, t.NewUserDataValue([]int{1, 2, 3}, meta)), nil
	}, 1, false)
	// gcctx(policy, f): Thread.CallContext with only a GC policy ("isolate" / "share"), no limits; returns the context status
	reg("gcctx", func(t *rt.Thread, c *rt.GoCont) (rt.Cont, error) {
		pol, _ := c.Arg(0).ToString()
		def := rt.RuntimeContextDef{GCPolicy: rt.ShareGCPolicy}
		if pol == "isolate" {
			def.GCPolicy = rt.IsolateGCPolicy
		}
		f := c.Arg(1)
		ctx, _ := t.CallContext(def, func() error {
			return rt.Call(t, f, nil, rt.NewTerminationWith(c, 0, false))
		})
		return c.PushingNext1(t.Runtime, rt.StringValue(ctx.Status().String())), nil
	}, 2, false)
	reg("mkud", func(t *rt.Thread, c *rt.GoCont) (rt.Cont, error) {
		name, _ := c.Arg(0).ToString()
		var meta *rt.Table
		if c.NArgs() > 1 {
			meta, _ = c.Arg(1).TryTable()
		}
		v := t.NewUserDataValue(&releaser{name: name, log: &log}, meta)
		return c.PushingNext1(t.Runtime, v), nil
	}, 2, false)
	reg("gcmt", func(t *rt.Thread, c *rt.GoCont) (rt.Cont, error) {
		name, _ := c.Arg(0).ToString()
		mt := rt.NewTable()
		f := rt.NewGoFunction(func(t *rt.Thread, c *rt.GoCont) (rt.Cont, error) {
			log = append(log, "gc:"+name)
			return c.Next(), nil
		}, "gc", 1, false)
		rt.SolemnlyDeclareCompliance(all, f)
		mt.Set(rt.StringValue("__gc"), rt.FunctionValue(f))
		return c.PushingNext1(t.Runtime, rt.TableValue(mt)), nil
	}, 1, false)
	defer func() {
		if x := recover(); x != nil {
			status = "gopanic"
			errmsg = fmt.Sprint(x)
		}
	}()
	t := r.MainThread()
	clos, err := t.LoadFromSourceOrCode("chunk", src, "t", rt.TableValue(env), false)
	if err != nil {
		return "compile_error", log, err.Error()
	}
	term := rt.NewTerminationWith(nil, 0, true)
	var cerr error
	if rootcpu > 0 {
		// what cmd.go does for -cpulimit: a limited context pushed on the runtime itself, the chunk run in it, then Close
		r.PushContext(rt.RuntimeContextDef{HardLimits: rt.RuntimeResources{Cpu: rootcpu}})
		func() {
			defer func() {
				if x := recover(); x != nil {
					if _, ok := x.(rt.ContextTerminationError); !ok {
						panic(x)
					}
					log = append(log, "terminated")
				}
			}()
			cerr = rt.Call(t, rt.FunctionValue(clos), nil, term)
		}()
		log = append(log, "root:"+r.Status().String())
	} else {
		cerr = rt.Call(t, rt.FunctionValue(clos), nil, term)
	}
	status = "ok"
	if cerr != nil {
		status = "error"
		errmsg = cerr.Error()
	}
	if gcwait {
		// let the Go collector run the Go finalisers of everything the program dropped
		for i := 0; i < 3; i++ {
			goruntime.GC()
			time.Sleep(20 * time.Millisecond)
		}
	}
	if doClose {
		log = append(log, "close")
		r.Close(nil)
	}
	if reuse {
		// the embedder keeps using the runtime after Close: run the chunk once more
		log = append(log, "reuse")
		if cerr := rt.Call(t, rt.FunctionValue(clos), nil, rt.NewTerminationWith(nil, 0, true)); cerr != nil {
			log = append(log, "reuse-error")
		}
	}
	return
}

func luaEngine(in *bufio.Scanner, out *bufio.Writer) {
	for in.Scan() {
		f := strings.Fields(in.Text())
		if len(f) < 2 {
			continue
		}
		src, err := hex.DecodeString(f[1])
		if err != nil {
			continue
		}
		gcwait, doClose, reuse, mockgc := false, true, false, false
		var rootcpu uint64
		for _, kv := range f[2:] {
			switch kv {
			case "gcwait=1":
				gcwait = true
			case "close=0":
				doClose = false
			case "reuse=1":
				reuse = true
			case "mockgc=1":
				mockgc = true
			default:
				if strings.HasPrefix(kv, "rootcpu=") {
					rootcpu, _ = strconv.ParseUint(kv[8:], 10, 64)
				}
			}
		}
		status, log, errmsg := runLua(src, gcwait, doClose, reuse, mockgc, rootcpu)
		ls := "-"
		if len(log) > 0 {
			ls = strings.ReplaceAll(strings.Join(log, ";"), " ", "_") // one token per field
		}
		e := "-"
		if errmsg != "" {
			e = hex.EncodeToString([]byte(errmsg))
		}
		fmt.Fprintf(out, "%s %s L:%s E:%s\n", f[0], status, ls, e)
		out.Flush()
	}
}

func main() {
	if len(os.Args) < 2 {
		fmt.Fprintln(os.Stderr, "usage: gvh-gc pool|lua")
		os.Exit(2)
	}
	in := bufio.NewScanner(os.Stdin)
	in.Buffer(make([]byte, 1<<20), 1<<28)
	out := bufio.NewWriterSize(os.Stdout, 1<<20)
	defer out.Flush()
	switch os.Args[1] {
	case "pool":
		poolEngine(in, out)
	case "stack":
		stackEngine(in, out)
	case "lua":
		luaEngine(in, out)
	default:
		fmt.Fprintln(os.Stderr, "unknown engine", os.Args[1])
		os.Exit(2)
	}
}
