//go:build !veriftrace

package main

func traceReset()       {}
func traceDump() string { return "-" }
