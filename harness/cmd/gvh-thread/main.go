// gvh-thread — Go side of the C09 (coroutines) check.
//
//	gvh-thread script            stdin: <id> <hex lua source> [cpu=N] [mem=N] [exp=K]
//	    runs the chunk on a fresh runtime (hx.RunLuaCase), then waits (settling loop) for
//	    runtime.NumGoroutine() to come down to before+K (K = goroutines the model says may
//	    remain: one per coroutine that is not dead).  Prints the lua-engine line plus
//	    " G:<goroutines after - before> TR:<trace or ->".
//	    With the `veriftrace` build tag (and the instrumented overlay of runtime/thread.go)
//	    TR carries the recorded action trace of the hand-off protocol.
//
// GOMAXPROCS is taken from the environment by the Go runtime.
package main

import (
	"bufio"
	"fmt"
	"os"
	"runtime"
	"strconv"
	"strings"
	"time"

	"gvharness/hx"

	rt "github.com/arnodel/golua/runtime"
)

// total time this process may still spend waiting for goroutines to terminate: when goroutines
// leak on every case (a broken end/Close) each wait would cost the full 1.5 s
var settleBudget = 20 * time.Second

func settle(target int) int {
	start := time.Now()
	defer func() { settleBudget -= time.Since(start) }()
	wait := 1500 * time.Millisecond
	if settleBudget < wait {
		wait = 20 * time.Millisecond
	}
	deadline := time.Now().Add(wait)
	n := runtime.NumGoroutine()
	for n > target && time.Now().Before(deadline) {
		runtime.Gosched()
		time.Sleep(200 * time.Microsecond)
		n = runtime.NumGoroutine()
	}
	return n
}

func main() {
	if len(os.Args) < 2 || os.Args[1] != "script" {
		fmt.Fprintln(os.Stderr, "usage: gvh-thread script")
		os.Exit(2)
	}
	in := bufio.NewScanner(os.Stdin)
	in.Buffer(make([]byte, 1<<20), 1<<28)
	out := bufio.NewWriterSize(os.Stdout, 1<<20)
	defer out.Flush()
	for in.Scan() {
		line := in.Text()
		lc, ok := hx.ParseLuaCase(line)
		if !ok {
			continue
		}
		exp := 0
		for _, f := range strings.Fields(line) {
			if strings.HasPrefix(f, "exp=") {
				exp, _ = strconv.Atoi(f[4:])
			}
			if f == "rooth=1" {
				// install a message handler in the runtime's ROOT context the way the golua CLI does
				// (Runtime.PushContext, no owning thread): it must only see errors that reach the top of
				// the main thread, never an error inside a coroutine (those are delivered to the resumer).
				lc.Setup = func(r *rt.Runtime) {
					h := rt.NewGoFunction(func(t *rt.Thread, c *rt.GoCont) (rt.Cont, error) {
						return c.PushingNext1(t.Runtime, rt.StringValue("ROOTHANDLER")), nil
					}, "roothandler", 1, false)
					h.SolemnlyDeclareCompliance(rt.ComplyCpuSafe | rt.ComplyMemSafe | rt.ComplyTimeSafe | rt.ComplyIoSafe)
					r.PushContext(rt.RuntimeContextDef{MessageHandler: h})
				}
			}
		}
		runtime.Gosched()
		before := runtime.NumGoroutine()
		traceReset()
		res := hx.RunLuaCase(lc)
		after := settle(before + exp)
		fmt.Fprintf(out, "%s G:%d TR:%s\n", hx.FormatLuaResult(lc.Id, res), after-before, traceDump())
		out.Flush()
	}
}
