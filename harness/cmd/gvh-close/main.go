// gvh-close — Go side of the C10 correspondence (to-be-closed variables).
//
//	input : <id> <hex lua source of the rendered skeleton> <decisions: 0/1 string or ->
//	output: <id> I:<ir stream> S:<status> T:<trace> E:<hex error message>
//
// I: the source is parsed by the real front end (scanner + parsing) and
// compiled by the real astcomp; the IR instruction stream of every function
// (public ir types) is walked and its close-relevant subsequence printed:
//
//	push | trunc<h> | jmp<l> | jif<l><t|f> (Not flag) | lbl<l> | ret | tail | fn( ... )
//
// (ret = Call{Tail:true} on the caller register r0; tail = Call{Tail:true} on
// any other continuation; fn( ... ) = the function whose code a MkClosure
// refers to, at the position of the MkClosure).
// T: the same source is run on a fresh runtime (hx.RunLuaCase) after the
// prelude below was run on it; the trace is what the chunk passed to emit.
package main

import (
	"bufio"
	"encoding/hex"
	"fmt"
	"os"
	"strings"

	"github.com/arnodel/golua/astcomp"
	"github.com/arnodel/golua/ir"
	"github.com/arnodel/golua/parsing"
	rt "github.com/arnodel/golua/runtime"
	"github.com/arnodel/golua/scanner"

	"gvharness/hx"
)

const prelude = `
local DSs = ...
local di = 0
function D() di = di + 1; return DSs:sub(di, di) == "1" end
function IT() if D() then return true end return nil end
function mk(id, h)
  emit("o", id)
  return setmetatable({}, {__close = function(_, e)
    emit("c", id, e)
    if h then emit("r", h) error(h, 0) end
  end})
end
function bad() emit("r", "missing") return {} end
function CO(f, k)
  local co = coroutine.create(f)
  local n = 0
  while true do
    local ok, e = coroutine.resume(co)
    if coroutine.status(co) == "dead" then
      if ok then emit("k", nil) else
        local _, e2 = coroutine.close(co)
        emit("k", e2)
      end
      return
    end
    if k == n then
      local _, e2 = coroutine.close(co)
      emit("k", e2)
      return
    end
    n = n + 1
  end
end

-- Go boundaries: the function f runs as a callback of a Go function.  The
-- VIA_LOAD / VIA_HOOK / VIA_GC boundaries handle an error of f themselves
-- (load returns nil,msg; the error of a hook or of a finaliser is dropped);
-- through the others the error goes on to the caller.
local function canon(e)
  if type(e) == "string" then
    e = e:match("^error: (.*)$") or e      -- load reports err.Error()
    local n = tonumber(e)
    if n then return n end
  end
  return e
end
function VIA_LOAD(f)
  local fn, e = load(f)
  if fn then return true end
  return false, canon(e)
end
function HOOKTARGET() end
function VIA_HOOK(f)
  local fired = false
  debug.sethook(function() if not fired then fired = true; f() end end, "c")
  HOOKTARGET()
  debug.sethook()
  return "?"
end
function VIA_GC(f)
  local started = false
  do
    local o = setmetatable({}, {__gc = function() started = true; f() end})
    o = nil
  end
  for i = 1, 200 do collectgarbage() if started then break end end
  if not started then emit("gc-never-ran") end
  return "?"
end
function VIA_SORT(f)
  local done = false
  table.sort({2, 1}, function(a, b) if not done then done = true; f() end return a < b end)
end
function VIA_GSUB(f) string.gsub("x", "x", function() f() end) end
function VIA_TOSTRING(f) tostring(setmetatable({}, {__tostring = function() f() return "" end})) end
function VIA_INDEX(f) local _ = setmetatable({}, {__index = function() f() end}).k end
function VIA_CONCAT(f) local _ = setmetatable({}, {__concat = function() f() return "" end}) .. "" end
-- the closing value of a generic for delivered by a multi-value call
function FORIN(c) return IT, nil, nil, c end
-- the value loses its __close metamethod after it was declared
function UNCL(x) getmetatable(x).__close = nil end
`

func dumpCode(c *ir.Code, consts []ir.Constant, out *[]string) {
	for _, in := range c.Instructions {
		switch x := in.(type) {
		case ir.PushCloseStack:
			*out = append(*out, "push")
		case ir.TruncateCloseStack:
			*out = append(*out, fmt.Sprintf("trunc%d", x.Height))
		case ir.Jump:
			*out = append(*out, fmt.Sprintf("jmp%d", uint(x.Label)))
		case ir.JumpIf:
			f := "f"
			if x.Not {
				f = "t"
			}
			*out = append(*out, fmt.Sprintf("jif%d%s", uint(x.Label), f))
		case ir.DeclareLabel:
			*out = append(*out, fmt.Sprintf("lbl%d", uint(x.Label)))
		case ir.Call:
			if x.Tail {
				if x.Cont == ir.Register(0) {
					*out = append(*out, "ret")
				} else {
					*out = append(*out, "tail")
				}
			}
		case ir.MkClosure:
			*out = append(*out, "fn(")
			if sub, ok := consts[x.Code].(*ir.Code); ok {
				dumpCode(sub, consts, out)
			} else {
				*out = append(*out, "?")
			}
			*out = append(*out, ")")
		}
	}
}

func irStream(src []byte) (s string) {
	defer func() {
		if r := recover(); r != nil {
			s = "GOPANIC:" + hex.EncodeToString([]byte(fmt.Sprint(r)))
		}
	}()
	stat, err := parsing.ParseChunk(scanner.New("chunk", src))
	if err != nil {
		return "PARSE_ERROR:" + hex.EncodeToString([]byte(err.Error()))
	}
	kidx, consts, err := astcomp.CompileLuaChunk("chunk", stat)
	if err != nil {
		return "COMPILE_ERROR:" + hex.EncodeToString([]byte(err.Error()))
	}
	top, ok := consts[kidx].(*ir.Code)
	if !ok {
		return "NOCODE"
	}
	var out []string
	dumpCode(top, consts, &out)
	return strings.Join(out, ",")
}

func main() {
	in := bufio.NewScanner(os.Stdin)
	in.Buffer(make([]byte, 1<<20), 1<<28)
	out := bufio.NewWriterSize(os.Stdout, 1<<16)
	defer out.Flush()
	for in.Scan() {
		f := strings.Fields(in.Text())
		if len(f) < 3 {
			continue
		}
		src, err := hex.DecodeString(f[1])
		if err != nil {
			continue
		}
		ds := f[2]
		if ds == "-" {
			ds = ""
		}
		irs := irStream(src)
		if len(f) > 3 && f[3] == "norun" {
			fmt.Fprintf(out, "%s I:%s S:skipped T:- E:-\n", f[0], irs)
			out.Flush()
			continue
		}
		lc := hx.LuaCase{Id: f[0], Src: src, Mode: "t", Chunk: "chunk"}
		lc.Setup = func(r *rt.Runtime) {
			t := r.MainThread()
			clos, err := t.LoadFromSourceOrCode("prelude", []byte(prelude), "t", rt.TableValue(r.GlobalEnv()), false)
			if err != nil {
				panic(err)
			}
			if err := rt.Call(t, rt.FunctionValue(clos), []rt.Value{rt.StringValue(ds)}, rt.NewTerminationWith(nil, 0, false)); err != nil {
				panic(err)
			}
		}
		res := hx.RunLuaCase(lc)
		tr := "-"
		if len(res.Trace) > 0 {
			tr = strings.Join(res.Trace, ";")
		}
		fmt.Fprintf(out, "%s I:%s S:%s T:%s E:%s\n", f[0], irs, res.Status, tr, res.Errmsg)
		out.Flush()
	}
}
