// gvh-pack — Go side of the C17 correspondence (string.pack / unpack /
// packsize, %q + load, tostring / tonumber, integer and string directives of
// string.format).  Every operation goes through the real Lua-visible library
// functions of a golua runtime (one runtime per process, the Lua wrappers are
// compiled once); arguments are passed as Lua values, never spliced into
// source text, except for %q whose whole point is to be loaded back.
//
//	input  : <id> <op> <args...>          (one case per line)
//	  R <fmt hex> <v,v,..|->              pack, then unpack + packsize  -> P:<..> U:<..> S:<..>
//	  U <fmt hex> <data hex> <pos dec>    unpack of arbitrary bytes     -> U:<..>
//	  S <fmt hex>                         packsize                      -> S:<..>
//	  Q <v>                               %q, load, run                 -> Q:<hex literal> L:<status> V:<value> T:<math.type>
//	  T <v>                               tostring, tonumber            -> S:<hex> N:<value>
//	  F <fmt hex> <v,v,..|->              string.format                 -> F:ok:<hex> | F:err:<hex msg>
//	values: i<dec> f<16 hex> fnan s<hex> s- n b0 b1
//	results: ok:<...> or err:<hex of message>
package main

import (
	"bufio"
	"encoding/hex"
	"fmt"
	"os"
	"strings"

	"gvharness/hx"

	"github.com/arnodel/golua/lib"
	rt "github.com/arnodel/golua/runtime"
)

const driver = `
local pack, unpack, packsize, format = string.pack, string.unpack, string.packsize, string.format
local function fpack(...) return pcall(pack, ...) end
local function funpack(...) return pcall(unpack, ...) end
local function fsize(f) return pcall(packsize, f) end
local function fquote(v)
  local ok, q = pcall(format, "%q", v)
  if not ok then return "F", q end
  local f, e = load("return " .. q, "q", "t", {})
  if not f then return "C", q, e end
  local ok2, r = pcall(f)
  if not ok2 then return "E", q, r end
  return "K", q, r, math.type(r)
end
local function ftostr(v)
  local s = tostring(v)
  local n = tonumber(s)
  return s, n
end
local function fformat(...) return pcall(format, ...) end
return fpack, funpack, fsize, fquote, ftostr, fformat
`

var cn = &hx.Canon{}

func unhex(s string) string {
	if s == "-" {
		return ""
	}
	b, err := hex.DecodeString(s)
	if err != nil {
		panic("bad hex " + s)
	}
	return string(b)
}

func vals(s string) []rt.Value {
	if s == "-" || s == "" {
		return nil
	}
	var out []rt.Value
	for _, a := range strings.Split(s, ",") {
		out = append(out, hx.ParseValue(a))
	}
	return out
}

type env struct {
	t   *rt.Thread
	fns []rt.Value
}

func (e *env) call(i int, args ...rt.Value) (res []rt.Value, err error) {
	term := rt.NewTerminationWith(nil, 0, true)
	err = rt.Call(e.t, e.fns[i], args, term)
	return term.Etc(), err
}

// result of a pcall-wrapped call: ok:<canon values> | err:<hex msg>
func pres(res []rt.Value, err error) string {
	if err != nil {
		return "goerr:" + hx.HexOrDash([]byte(err.Error()))
	}
	if len(res) == 0 {
		return "none"
	}
	if b, ok := res[0].TryBool(); ok && !b {
		msg := ""
		if len(res) > 1 {
			if s, ok := res[1].TryString(); ok {
				msg = s
			} else {
				msg = "?" + cn.Val(res[1])
			}
		}
		return "err:" + hx.HexOrDash([]byte(msg))
	}
	return "ok:" + cn.Vals(res[1:])
}

func main() {
	r := rt.New(os.Stderr)
	cleanup := lib.LoadAll(r)
	defer cleanup()
	t := r.MainThread()
	clos, err := t.LoadFromSourceOrCode("driver", []byte(driver), "t", rt.TableValue(r.GlobalEnv()), false)
	if err != nil {
		fmt.Fprintln(os.Stderr, "driver does not compile:", err)
		os.Exit(3)
	}
	term := rt.NewTerminationWith(nil, 0, true)
	if err := rt.Call(t, rt.FunctionValue(clos), nil, term); err != nil {
		fmt.Fprintln(os.Stderr, "driver failed:", err)
		os.Exit(3)
	}
	e := &env{t: t, fns: append([]rt.Value{}, term.Etc()...)}
	in := bufio.NewScanner(os.Stdin)
	in.Buffer(make([]byte, 1<<20), 1<<28)
	out := bufio.NewWriterSize(os.Stdout, 1<<16)
	defer out.Flush()
	for in.Scan() {
		f := strings.Fields(in.Text())
		if len(f) < 2 {
			continue
		}
		id, op := f[0], f[1]
		line := runCase(e, op, f[2:])
		fmt.Fprintln(out, id+" "+line)
		out.Flush()
	}
}

func runCase(e *env, op string, a []string) (line string) {
	defer func() {
		if x := recover(); x != nil {
			line = "GOPANIC " + hx.HexOrDash([]byte(fmt.Sprint(x)))
		}
	}()
	switch op {
	case "R":
		format := rt.StringValue(unhex(a[0]))
		args := append([]rt.Value{format}, vals(a[1])...)
		res, err := e.call(0, args...)
		p := pres(res, err)
		u := "-"
		if strings.HasPrefix(p, "ok:") && len(res) == 2 {
			ur, uerr := e.call(1, format, res[1])
			u = pres(ur, uerr)
		}
		sr, serr := e.call(2, format)
		return "P:" + p + " U:" + u + " S:" + pres(sr, serr)
	case "U":
		var pos int64
		fmt.Sscanf(a[2], "%d", &pos)
		ur, uerr := e.call(1, rt.StringValue(unhex(a[0])), rt.StringValue(unhex(a[1])), rt.IntValue(pos))
		return "U:" + pres(ur, uerr)
	case "S":
		sr, serr := e.call(2, rt.StringValue(unhex(a[0])))
		return "S:" + pres(sr, serr)
	case "Q":
		res, err := e.call(3, hx.ParseValue(a[0]))
		if err != nil || len(res) < 2 {
			return "Q:goerr"
		}
		st, _ := res[0].TryString()
		q := "-"
		if s, ok := res[1].TryString(); ok {
			q = hx.HexOrDash([]byte(s))
		}
		v, tp := "-", "-"
		if len(res) > 2 {
			v = cn.Val(res[2])
			if st != "K" {
				if s, ok := res[2].TryString(); ok {
					v = hx.HexOrDash([]byte(s))
				}
			}
		}
		if len(res) > 3 {
			if s, ok := res[3].TryString(); ok {
				tp = s
			} else {
				tp = "nil"
			}
		}
		return "Q:" + q + " L:" + st + " V:" + v + " T:" + tp
	case "T":
		res, err := e.call(4, hx.ParseValue(a[0]))
		if err != nil || len(res) < 2 {
			return "T:goerr"
		}
		return "S:" + cn.Val(res[0]) + " N:" + cn.Val(res[1])
	case "F":
		args := append([]rt.Value{rt.StringValue(unhex(a[0]))}, vals(a[1])...)
		res, err := e.call(5, args...)
		return "F:" + pres(res, err)
	}
	return "BADOP"
}
