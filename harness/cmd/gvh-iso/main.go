// gvh-iso — dynamic tie of C20 (independent runtimes are isolated).
//
// input : <id> <hex program A> <hex program B> <schedule over {A,B}> [opts=cpu:N,regpool:N,regage:N]
//         opts: RuntimeOptions given to rt.New for program A's runtimes ONLY (WithRuntimeContext with a hard
//         CPU limit, WithRegPoolSize, WithRegSetMaxAge); B's runtimes are always created without options, after
//         A's.  With the command-line argument "noopts" the opts field is ignored (reference run: B must
//         behave the same in both runs).
//         a program is a sequence of chunks separated by a line "--"; chunks of one program
//         run in order in ONE Runtime (fresh rt.New + lib.LoadAll), sharing its globals;
//         a chunk that fails (compile or run time) records the error and the program goes on
// output: <id> SA:<trace> SB:<trace> QA:<trace> QB:<trace> CA:<trace> CB:<trace>
//         S = the program alone; Q = the two programs interleaved chunk by chunk on one
//         goroutine following the schedule (remaining chunks appended); C = the two programs
//         on two goroutines, each creating and loading its own Runtime concurrently.
//         trace = events joined by ';' — emit(...) arguments, chunk errors, stdout at the end
//         (hex encoded as a whole)
// GOMAXPROCS is taken from the environment.  Built with -race the detector's reports go to stderr.
package main

import (
	"bufio"
	"bytes"
	"encoding/hex"
	"fmt"
	"math"
	"os"
	"strconv"
	"strings"
	"sync"

	"github.com/arnodel/golua/lib"
	rt "github.com/arnodel/golua/runtime"
)

func canon(v rt.Value) string {
	switch v.Type() {
	case rt.NilType:
		return "nil"
	case rt.BoolType:
		if v.AsBool() {
			return "true"
		}
		return "false"
	case rt.IntType:
		return "i" + strconv.FormatInt(v.AsInt(), 10)
	case rt.FloatType:
		f := v.AsFloat()
		if f != f {
			return "fnan"
		}
		return fmt.Sprintf("f%016x", math.Float64bits(f))
	case rt.StringType:
		return "s" + strconv.Quote(v.AsString())
	}
	return "<" + v.TypeName() + ">"
}

type machine struct {
	r       *rt.Runtime
	cleanup func()
	out     bytes.Buffer
	trace   []string
	chunks  []string
	pc      int
}

func parseOpts(spec string) []rt.RuntimeOption {
	var opts []rt.RuntimeOption
	for _, kv := range strings.Split(spec, ",") {
		i := strings.IndexByte(kv, ':')
		if i < 0 {
			continue
		}
		n, _ := strconv.ParseUint(kv[i+1:], 10, 64)
		switch kv[:i] {
		case "cpu":
			opts = append(opts, rt.WithRuntimeContext(rt.RuntimeContextDef{HardLimits: rt.RuntimeResources{Cpu: n}}))
		case "mem":
			opts = append(opts, rt.WithRuntimeContext(rt.RuntimeContextDef{HardLimits: rt.RuntimeResources{Memory: n}}))
		case "regpool":
			opts = append(opts, rt.WithRegPoolSize(uint(n)))
		case "regage":
			opts = append(opts, rt.WithRegSetMaxAge(uint(n)))
		}
	}
	return opts
}

func newMachine(src string, opts ...rt.RuntimeOption) *machine {
	m := &machine{}
	m.chunks = strings.Split(src, "\n--\n")
	m.r = rt.New(&m.out, opts...)
	m.cleanup = lib.LoadAll(m.r)
	emit := func(t *rt.Thread, c *rt.GoCont) (rt.Cont, error) {
		all := c.Etc()
		parts := make([]string, len(all))
		for i, v := range all {
			parts[i] = canon(v)
		}
		m.trace = append(m.trace, strings.Join(parts, ","))
		return c.Next(), nil
	}
	f := m.r.SetEnvGoFunc(m.r.GlobalEnv(), "emit", emit, 0, true)
	rt.SolemnlyDeclareCompliance(rt.ComplyCpuSafe|rt.ComplyMemSafe|rt.ComplyTimeSafe|rt.ComplyIoSafe, f)
	return m
}

func (m *machine) done() bool { return m.pc >= len(m.chunks) }

func (m *machine) step() {
	src := m.chunks[m.pc]
	m.pc++
	defer func() {
		if x := recover(); x != nil {
			m.trace = append(m.trace, "GOPANIC:"+strconv.Quote(fmt.Sprint(x)))
		}
	}()
	t := m.r.MainThread()
	clos, err := t.LoadFromSourceOrCode("chunk", []byte(src), "t", rt.TableValue(m.r.GlobalEnv()), false)
	if err != nil {
		m.trace = append(m.trace, "COMPILE:"+strconv.Quote(err.Error()))
		return
	}
	term := rt.NewTerminationWith(nil, 0, false)
	if err := rt.Call(t, rt.FunctionValue(clos), nil, term); err != nil {
		ev := rt.ErrorValue(err)
		m.trace = append(m.trace, "ERROR:"+canon(ev))
	}
}

func (m *machine) finish() string {
	func() {
		defer func() { recover() }()
		if m.cleanup != nil {
			m.cleanup()
		}
	}()
	s := strings.Join(m.trace, ";") + ";OUT:" + strconv.Quote(m.out.String())
	return hex.EncodeToString([]byte(s))
}

func solo(src string, opts ...rt.RuntimeOption) string {
	m := newMachine(src, opts...)
	for !m.done() {
		m.step()
	}
	return m.finish()
}

func main() {
	noopts := len(os.Args) > 1 && os.Args[1] == "noopts"
	in := bufio.NewScanner(os.Stdin)
	in.Buffer(make([]byte, 1<<20), 1<<26)
	out := bufio.NewWriter(os.Stdout)
	defer out.Flush()
	// Lua's io.stdout/io.stdin (the process's real files) must not touch the protocol streams
	if null, err := os.OpenFile("/dev/null", os.O_RDWR, 0); err == nil {
		os.Stdin = null
		os.Stdout = null
	}
	for in.Scan() {
		f := strings.Fields(in.Text())
		if len(f) < 4 {
			continue
		}
		a, _ := hex.DecodeString(f[1])
		b, _ := hex.DecodeString(f[2])
		A, B := string(a), string(b)
		var optsA []rt.RuntimeOption
		if len(f) > 4 && strings.HasPrefix(f[4], "opts=") && !noopts {
			optsA = parseOpts(f[4][5:])
		}
		sa, sb := solo(A, optsA...), solo(B)
		// sequential interleaving
		ma, mb := newMachine(A, optsA...), newMachine(B)
		for _, c := range f[3] {
			if c == 'A' && !ma.done() {
				ma.step()
			} else if c == 'B' && !mb.done() {
				mb.step()
			}
		}
		for !ma.done() || !mb.done() {
			if !ma.done() {
				ma.step()
			}
			if !mb.done() {
				mb.step()
			}
		}
		qa, qb := ma.finish(), mb.finish()
		// concurrent: creation, loading and running on two goroutines
		var ca, cb string
		var wg sync.WaitGroup
		start := make(chan struct{})
		wg.Add(2)
		go func() { defer wg.Done(); <-start; ca = solo(A, optsA...) }()
		go func() { defer wg.Done(); <-start; cb = solo(B) }()
		close(start)
		wg.Wait()
		fmt.Fprintf(out, "%s SA:%s SB:%s QA:%s QB:%s CA:%s CB:%s\n", f[0], sa, sb, qa, qb, ca, cb)
		out.Flush()
	}
}
