// gvh-iso — dynamic tie of C20 (independent runtimes are isolated).
//
// input : <id> <hex program A> <hex program B> <schedule over {A,B}> [opts=cpu:N,regpool:N,regage:N]
//
//	opts: RuntimeOptions given to rt.New for program A's runtimes ONLY (WithRuntimeContext with a hard
//	CPU limit, WithRegPoolSize, WithRegSetMaxAge); B's runtimes are always created without options, after
//	A's.  With the command-line argument "noopts" the opts field is ignored (reference run: B must
//	behave the same in both runs).
//	a program is a sequence of chunks separated by a line "--"; chunks of one program
//	run in order in ONE Runtime (fresh rt.New + lib.LoadAll), sharing its globals;
//	a chunk that fails (compile or run time) records the error and the program goes on
//
// output: <id> SA:<trace> SB:<trace> QA:<trace> QB:<trace> CA:<trace> CB:<trace>
//
//	S = the program alone; Q = the two programs interleaved chunk by chunk on one
//	goroutine following the schedule (remaining chunks appended); C = the two programs
//	on two goroutines, each creating and loading its own Runtime concurrently.
//	trace = events joined by ';' — emit(...) arguments, chunk errors, stdout at the end
//	(hex encoded as a whole)
//	schedule letters: A / B = next chunk of that program; a / b = the host closes that program's runtime now
//	(lib cleanup + Runtime.Close; its remaining chunks are not run); x / y = the host drops A's / B's runtime
//	and forces Go garbage collections (the runtime's Go finaliser closes it).  The solo and concurrent runs
//	of a program stop at the same point in the same way.
//	Each run mode (A alone, B alone, interleaved, concurrent) gets fresh scratch files as the process's
//	os.Stdin / os.Stdout / os.Stderr (directory $GVH_SCRATCH), which is what the runtimes' io.stdin/stdout/stderr wrap.
//
// GOMAXPROCS is taken from the environment.  Built with -race the detector's reports go to stderr.
package main

import (
	"bufio"
	"bytes"
	"encoding/hex"
	"fmt"
	"math"
	"os"
	"runtime"
	"strconv"
	"strings"
	"sync"
	"time"

	"github.com/arnodel/golua/lib"
	rt "github.com/arnodel/golua/runtime"
)

func canon(v rt.Value) string {
	switch v.Type() {
	case rt.NilType:
		return "nil"
	case rt.BoolType:
		if v.AsBool() {
			return "true"
		}
		return "false"
	case rt.IntType:
		return "i" + strconv.FormatInt(v.AsInt(), 10)
	case rt.FloatType:
		f := v.AsFloat()
		if f != f {
			return "fnan"
		}
		return fmt.Sprintf("f%016x", math.Float64bits(f))
	case rt.StringType:
		return "s" + strconv.Quote(v.AsString())
	}
	return "<" + v.TypeName() + ">"
}

type machine struct {
	r       *rt.Runtime
	cleanup func()
	out     bytes.Buffer
	trace   []string
	chunks  []string
	pc      int
	closed  bool
}

func parseOpts(spec string) []rt.RuntimeOption {
	var opts []rt.RuntimeOption
	for _, kv := range strings.Split(spec, ",") {
		i := strings.IndexByte(kv, ':')
		if i < 0 {
			continue
		}
		n, _ := strconv.ParseUint(kv[i+1:], 10, 64)
		switch kv[:i] {
		case "cpu":
			opts = append(opts, rt.WithRuntimeContext(rt.RuntimeContextDef{HardLimits: rt.RuntimeResources{Cpu: n}}))
		case "mem":
			opts = append(opts, rt.WithRuntimeContext(rt.RuntimeContextDef{HardLimits: rt.RuntimeResources{Memory: n}}))
		case "regpool":
			opts = append(opts, rt.WithRegPoolSize(uint(n)))
		case "regage":
			opts = append(opts, rt.WithRegSetMaxAge(uint(n)))
		}
	}
	return opts
}

func newMachine(src string, opts ...rt.RuntimeOption) *machine {
	m := &machine{}
	m.chunks = strings.Split(src, "\n--\n")
	m.r = rt.New(&m.out, opts...)
	m.cleanup = lib.LoadAll(m.r)
	emit := func(t *rt.Thread, c *rt.GoCont) (rt.Cont, error) {
		all := c.Etc()
		parts := make([]string, len(all))
		for i, v := range all {
			parts[i] = canon(v)
		}
		m.trace = append(m.trace, strings.Join(parts, ","))
		return c.Next(), nil
	}
	f := m.r.SetEnvGoFunc(m.r.GlobalEnv(), "emit", emit, 0, true)
	rt.SolemnlyDeclareCompliance(rt.ComplyCpuSafe|rt.ComplyMemSafe|rt.ComplyTimeSafe|rt.ComplyIoSafe, f)
	return m
}

func (m *machine) done() bool { return m.closed || m.pc >= len(m.chunks) }

// end the runtime the way the host would: kind 'c' = cleanup + Close, 'd' = drop it and let the Go finaliser run
func (m *machine) end(kind byte) {
	if m.closed {
		return
	}
	m.closed = true
	func() {
		defer func() {
			if x := recover(); x != nil {
				m.trace = append(m.trace, "CLOSEPANIC:"+strconv.Quote(fmt.Sprint(x)))
			}
		}()
		if kind == 'c' {
			if m.cleanup != nil {
				m.cleanup()
			}
			m.r.Close(nil)
			m.trace = append(m.trace, "CLOSED")
		} else {
			m.trace = append(m.trace, "DROPPED")
		}
	}()
	m.cleanup = nil
	m.r = nil
	if kind == 'd' {
		for i := 0; i < 3; i++ {
			runtime.GC()
			time.Sleep(2 * time.Millisecond)
		}
	}
}

func (m *machine) step() {
	src := m.chunks[m.pc]
	m.pc++
	defer func() {
		if x := recover(); x != nil {
			m.trace = append(m.trace, "GOPANIC:"+strconv.Quote(fmt.Sprint(x)))
		}
	}()
	t := m.r.MainThread()
	clos, err := t.LoadFromSourceOrCode("chunk", []byte(src), "t", rt.TableValue(m.r.GlobalEnv()), false)
	if err != nil {
		m.trace = append(m.trace, "COMPILE:"+strconv.Quote(err.Error()))
		return
	}
	term := rt.NewTerminationWith(nil, 0, false)
	if err := rt.Call(t, rt.FunctionValue(clos), nil, term); err != nil {
		ev := rt.ErrorValue(err)
		m.trace = append(m.trace, "ERROR:"+canon(ev))
	}
}

func (m *machine) finish() string {
	func() {
		defer func() { recover() }()
		if m.cleanup != nil {
			m.cleanup()
		}
	}()
	s := strings.Join(m.trace, ";") + ";OUT:" + strconv.Quote(m.out.String())
	return hex.EncodeToString([]byte(s))
}

// plan: how many chunks of a program run before the host ends its runtime, and how (0 = not at all)
type plan struct {
	steps int
	end   byte
}

func planOf(sched string, step, closeC, dropC byte, nchunks int) plan {
	n := 0
	for i := 0; i < len(sched); i++ {
		switch sched[i] {
		case step:
			if n < nchunks {
				n++
			}
		case closeC:
			return plan{n, 'c'}
		case dropC:
			return plan{n, 'd'}
		}
	}
	return plan{nchunks, 0}
}

func solo(src string, p plan, opts ...rt.RuntimeOption) string {
	m := newMachine(src, opts...)
	for k := 0; !m.done() && (p.end == 0 || k < p.steps); k++ {
		m.step()
	}
	if p.end != 0 {
		m.end(p.end)
	}
	return m.finish()
}

var scratchDir string
var stdFiles []*os.File

// freshStd gives the process new scratch files as os.Stdin / os.Stdout / os.Stderr (the real descriptors 0-2 are
// not touched: the protocol and the race detector keep using them).
func freshStd() {
	for _, f := range stdFiles {
		f.Close()
		os.Remove(f.Name())
	}
	stdFiles = stdFiles[:0]
	mk := func(name, content string) *os.File {
		f, err := os.CreateTemp(scratchDir, name)
		if err != nil {
			panic(err)
		}
		if content != "" {
			f.WriteString(content)
			f.Seek(0, 0)
		}
		stdFiles = append(stdFiles, f)
		return f
	}
	os.Stdin = mk("stdin-*", strings.Repeat("line of standard input\n", 400))
	os.Stdout = mk("stdout-*", "")
	os.Stderr = mk("stderr-*", "")
}

func main() {
	noopts := len(os.Args) > 1 && os.Args[1] == "noopts"
	// "conc": only the concurrent mode is run, so that the two goroutines are the FIRST users of whatever the
	// programs touch in this process (lazily initialised shared state is then initialised under the race detector)
	conconly := len(os.Args) > 1 && os.Args[1] == "conc"
	in := bufio.NewScanner(os.Stdin)
	in.Buffer(make([]byte, 1<<20), 1<<26)
	out := bufio.NewWriter(os.Stdout)
	defer out.Flush()
	// Lua's io.stdin/stdout/stderr wrap os.Stdin/os.Stdout/os.Stderr: scratch files, never the protocol streams
	scratchDir = os.Getenv("GVH_SCRATCH")
	if scratchDir == "" {
		scratchDir = os.TempDir()
	}
	os.MkdirAll(scratchDir, 0o755)
	defer func() {
		for _, f := range stdFiles {
			f.Close()
			os.Remove(f.Name())
		}
	}()
	for in.Scan() {
		f := strings.Fields(in.Text())
		if len(f) < 4 {
			continue
		}
		a, _ := hex.DecodeString(f[1])
		b, _ := hex.DecodeString(f[2])
		A, B := string(a), string(b)
		var optsA []rt.RuntimeOption
		if len(f) > 4 && strings.HasPrefix(f[4], "opts=") && !noopts {
			optsA = parseOpts(f[4][5:])
		}
		sched := f[3]
		na, nb := len(strings.Split(A, "\n--\n")), len(strings.Split(B, "\n--\n"))
		pa, pb := planOf(sched, 'A', 'a', 'x', na), planOf(sched, 'B', 'b', 'y', nb)
		if conconly {
			freshStd()
			var ca, cb string
			var wg sync.WaitGroup
			start := make(chan struct{})
			wg.Add(2)
			go func() { defer wg.Done(); <-start; ca = solo(A, pa, optsA...) }()
			go func() { defer wg.Done(); <-start; cb = solo(B, pb) }()
			close(start)
			wg.Wait()
			fmt.Fprintf(out, "%s CA:%s CB:%s\n", f[0], ca, cb)
			out.Flush()
			continue
		}
		freshStd()
		sa := solo(A, pa, optsA...)
		freshStd()
		sb := solo(B, pb)
		// sequential interleaving
		freshStd()
		ma, mb := newMachine(A, optsA...), newMachine(B)
		for i := 0; i < len(sched); i++ {
			switch sched[i] {
			case 'A':
				if !ma.done() {
					ma.step()
				}
			case 'B':
				if !mb.done() {
					mb.step()
				}
			case 'a':
				ma.end('c')
			case 'x':
				ma.end('d')
			case 'b':
				mb.end('c')
			case 'y':
				mb.end('d')
			}
		}
		for !ma.done() || !mb.done() {
			if !ma.done() {
				ma.step()
			}
			if !mb.done() {
				mb.step()
			}
		}
		qa, qb := ma.finish(), mb.finish()
		// concurrent: creation, loading, running and closing on two goroutines
		freshStd()
		var ca, cb string
		var wg sync.WaitGroup
		start := make(chan struct{})
		wg.Add(2)
		go func() { defer wg.Done(); <-start; ca = solo(A, pa, optsA...) }()
		go func() { defer wg.Done(); <-start; cb = solo(B, pb) }()
		close(start)
		wg.Wait()
		fmt.Fprintf(out, "%s SA:%s SB:%s QA:%s QB:%s CA:%s CB:%s\n", f[0], sa, sb, qa, qb, ca, cb)
		out.Flush()
	}
}
