// gvh-limits — Go side of the C04 correspondence (opcode encoders/decoders and
// the implementation limits of the bytecode compiler), plus a "lua" engine
// (the shared hx.LuaEngine) for the child-process exploration.
//
//	gvh-limits enc   : the REAL encoders (code.mkType1..7 through /repo/code/verif_opcodes.go)
//	                   and the real Get* accessors, one case per line, numbers in hex
//	    <id> m1 op aT aI bT bI cT cI | m2 f aT aI bT bI cT cI | m3 f op aT aI n | m4a f op aT aI bT bI
//	         m4b f op aT aI l | m5o f op aT aI d(signed) | m5c f op aT aI d | m6 f aT aI bT bI i
//	         m7 f aT aI bT bI cT cI | m0 f aT aI | so c d(signed) | sk c i | dec c | lsi aT aI n(signed)
//	    -> <id> <full decode of the resulting word> | <id> none
//	gvh-limits lim   : the REAL ircomp.ConstantCompiler on tiny hand-built IR, one request per line
//	    <id> ra <isCell bits> <ops: T<r> R<r> U<r> ...>   register allocator history
//	    <id> const <n> <k,k,..> | clos <n> <k,k,..> | etc <i> | fill <i> | cltrunc <h> | jump <kind> <from> <to> <len>
//	    -> <id> E <word>.. | C | P | T <word>
//	gvh-limits lua   : hx.LuaEngine
package main

import (
	"bufio"
	"encoding/hex"
	"fmt"
	"os"
	"runtime/debug"
	"strconv"
	"strings"

	"gvharness/hx"

	"github.com/arnodel/golua/code"
	"github.com/arnodel/golua/ir"
	"github.com/arnodel/golua/ircomp"
	"github.com/arnodel/golua/lib"
	rt "github.com/arnodel/golua/runtime"
)

// regpool: <id> <n> <hex source> -> <id> ok <results> | error <msg hex> | gopanic <msg hex>
// runs the chunk on runtime.New(w, runtime.WithRegPoolSize(n)): an exported, documented option must not crash the host
func regpoolEngine(in *bufio.Scanner, out *bufio.Writer) {
	for in.Scan() {
		f := strings.Fields(in.Text())
		if len(f) < 3 {
			continue
		}
		n, _ := strconv.Atoi(f[1])
		src, _ := hex.DecodeString(f[2])
		func() {
			defer func() {
				if r := recover(); r != nil {
					fmt.Fprintln(out, f[0], "gopanic", hex.EncodeToString([]byte(fmt.Sprint(r))))
				}
				out.Flush()
			}()
			r := rt.New(nil, rt.WithRegPoolSize(uint(n)))
			cleanup := lib.LoadAll(r)
			defer cleanup()
			t := r.MainThread()
			clos, err := t.LoadFromSourceOrCode("chunk", src, "t", rt.TableValue(r.GlobalEnv()), false)
			if err != nil {
				fmt.Fprintln(out, f[0], "compile_error", hex.EncodeToString([]byte(err.Error())))
				return
			}
			term := rt.NewTerminationWith(nil, 0, true)
			if err := rt.Call(t, rt.FunctionValue(clos), nil, term); err != nil {
				fmt.Fprintln(out, f[0], "error", hex.EncodeToString([]byte(err.Error())))
				return
			}
			parts := []string{}
			for _, v := range term.Etc() {
				s, _ := v.ToString()
				parts = append(parts, s)
			}
			fmt.Fprintln(out, f[0], "ok", strings.Join(parts, ","))
		}()
	}
}

// codelen: <id> <hex source> -> <id> <max number of opcodes of one function> <number of constants> | <id> err
// (compiles with the real pipeline; used to decide whether a program is beyond the int16 code limit)
func codelenEngine(in *bufio.Scanner, out *bufio.Writer, dump bool) {
	for in.Scan() {
		f := strings.Fields(in.Text())
		if len(f) < 2 {
			continue
		}
		src, _ := hex.DecodeString(f[1])
		func() {
			defer func() {
				if r := recover(); r != nil {
					fmt.Fprintln(out, f[0], "panic")
				}
				out.Flush()
			}()
			r := rt.New(nil)
			u, _, err := r.CompileLuaChunk("chunk", src)
			if err != nil {
				fmt.Fprintln(out, f[0], "err")
				return
			}
			max := 0
			for _, k := range u.Constants {
				if c, ok := k.(code.Code); ok {
					if n := int(c.EndOffset - c.StartOffset); n > max {
						max = n
					}
				}
			}
			if !dump {
				fmt.Fprintln(out, f[0], max, len(u.Constants))
				return
			}
			// dump: K<kinds> F<start>,<end>,<regs>,<cells>;.. W<words>  (input of the model's check_code)
			var kinds, fns, ws strings.Builder
			for _, k := range u.Constants {
				if c, ok := k.(code.Code); ok {
					kinds.WriteByte('c')
					if fns.Len() > 0 {
						fns.WriteByte(';')
					}
					fmt.Fprintf(&fns, "%x,%x,%x,%x", c.StartOffset, c.EndOffset, c.RegCount, c.CellCount)
				} else {
					kinds.WriteByte('o')
				}
			}
			for i, w := range u.Code {
				if i > 0 {
					ws.WriteByte(',')
				}
				fmt.Fprintf(&ws, "%x", uint32(w))
			}
			fmt.Fprintf(out, "%s K%s F%s W%s\n", f[0], kinds.String(), fns.String(), ws.String())
		}()
	}
}

func hexi(s string) int64 {
	neg := strings.HasPrefix(s, "-")
	if neg {
		s = s[1:]
	}
	v, err := strconv.ParseUint(s, 16, 64)
	if err != nil {
		panic("bad number " + s)
	}
	if neg {
		return -int64(v)
	}
	return int64(v)
}

func b2i(b bool) int {
	if b {
		return 1
	}
	return 0
}

func sx(v int64) string {
	if v < 0 {
		return fmt.Sprintf("-%x", -v)
	}
	return fmt.Sprintf("%x", v)
}

func regStr(r code.Reg) string { return fmt.Sprintf("%x,%x", uint8(r.RegType()), r.Idx()) }

// every accessor of opcodes.go applied to the same word
func decodeAll(c code.Opcode) string {
	return fmt.Sprintf("w=%x t1=%d t4a=%d t0=%d pfx=%x x=%x f=%d a=%s b=%s c=%s y=%x j=%x n=%x k=%x l=%x uo=%x uk=%x m=%x off=%s cl=%x",
		uint32(c), b2i(c.HasType1()), b2i(c.HasType4a()), b2i(c.HasType0()), uint32(c.TypePfx()), uint8(c.GetX()), b2i(c.GetF()),
		regStr(c.GetA()), regStr(c.GetB()), regStr(c.GetC()), uint8(c.GetY()), uint8(c.GetJ()), uint16(c.GetN()),
		uint16(c.GetKIndex()), uint8(c.GetL()), uint8(c.GetUnOp()), uint8(c.GetUnOpK()), uint8(c.GetM()),
		sx(int64(c.GetOffset())), uint16(c.GetClStackOffset()))
}

func encEngine(in *bufio.Scanner, out *bufio.Writer) {
	for in.Scan() {
		f := strings.Fields(in.Text())
		if len(f) < 2 {
			continue
		}
		a := make([]int64, len(f)-2)
		for i, s := range f[2:] {
			a[i] = hexi(s)
		}
		u8 := func(i int) uint8 { return uint8(a[i]) }
		reg := func(i int) code.Reg { return code.VerifReg(u8(i), u8(i+1)) }
		var w code.Opcode
		none := false
		switch f[1] {
		case "m1":
			w = code.VerifMkType1(u8(0), reg(1), reg(3), reg(5))
		case "m2":
			w = code.VerifMkType2(u8(0), reg(1), reg(3), reg(5))
		case "m3":
			w = code.VerifMkType3(u8(0), u8(1), reg(2), uint16(a[4]))
		case "m4a":
			w = code.VerifMkType4a(u8(0), u8(1), reg(2), reg(4))
		case "m4b":
			w = code.VerifMkType4b(u8(0), u8(1), reg(2), u8(4))
		case "m5o":
			w = code.VerifMkType5Offset(u8(0), u8(1), reg(2), int16(a[4]))
		case "m5c":
			w = code.VerifMkType5ClStack(u8(0), u8(1), reg(2), uint16(a[4]))
		case "m6":
			w = code.VerifMkType6(u8(0), reg(1), reg(3), u8(5))
		case "m7":
			w = code.VerifMkType7(u8(0), reg(1), reg(3), reg(5))
		case "m0":
			w = code.VerifMkType0(u8(0), reg(1))
		case "so":
			w = code.Opcode(uint32(a[0])).SetOffset(code.Offset(int16(a[1])))
		case "sk":
			w = code.Opcode(uint32(a[0])).SetKIndex(code.KIndex(uint16(a[1])))
		case "dec":
			w = code.Opcode(uint32(a[0]))
		case "lsi":
			var ok bool
			w, ok = code.LoadSmallInt(reg(0), int(a[2]))
			none = !ok
		default:
			fmt.Fprintln(out, f[0], "?")
			continue
		}
		if none {
			fmt.Fprintln(out, f[0], "none")
		} else {
			fmt.Fprintln(out, f[0], decodeAll(w))
		}
	}
}

// compileCode runs the real constant compiler on one hand-built IR function plus extra constants.
// Returns the unit, the error (CompilationPanic surfaced by CompileQueue) or the panic payload.
func compileCode(c ir.Code, extra []ir.Constant) (unit *code.Unit, err error, pan interface{}) {
	defer func() {
		if r := recover(); r != nil {
			pan = r
		}
	}()
	if len(c.Lines) != len(c.Instructions) {
		c.Lines = make([]int, len(c.Instructions))
		for i := range c.Lines {
			c.Lines[i] = 1
		}
	}
	consts := append([]ir.Constant{c}, extra...)
	kc := ircomp.NewConstantCompiler(consts, code.NewBuilder("verif"))
	kc.QueueConstant(0)
	unit, err = kc.CompileQueue()
	return
}

func words(u *code.Unit, idx []int) string {
	parts := make([]string, len(idx))
	for i, k := range idx {
		parts[i] = fmt.Sprintf("%x", uint32(u.Code[k]))
	}
	return strings.Join(parts, ",")
}

func result(id string, u *code.Unit, err error, pan interface{}, at []int) string {
	switch {
	case pan != nil:
		return id + " P"
	case err != nil:
		return id + " C"
	}
	return id + " E " + words(u, at)
}

func ints(s string) []int {
	if s == "-" {
		return nil
	}
	var r []int
	for _, p := range strings.Split(s, ",") {
		r = append(r, int(hexi(p)))
	}
	return r
}

func limEngine(in *bufio.Scanner, out *bufio.Writer) {
	const nilK = 1 // index of the nil constant in `extra`
	for in.Scan() {
		f := strings.Fields(in.Text())
		if len(f) < 2 {
			continue
		}
		id := f[0]
		switch f[1] {
		case "ra":
			regs := make([]ir.RegData, len(f[2]))
			for i, ch := range f[2] {
				regs[i] = ir.RegData{IsCell: ch == '1'}
			}
			var instrs []ir.Instruction
			var useAt []int
			n := 0
			for _, o := range f[3:] {
				r := ir.Register(hexi(o[1:]))
				switch o[0] {
				case 'T':
					instrs = append(instrs, ir.TakeRegister{Reg: r})
				case 'R':
					instrs = append(instrs, ir.ReleaseRegister{Reg: r})
				case 'U':
					instrs = append(instrs, ir.LoadConst{Dst: r, Kidx: nilK})
					useAt = append(useAt, n)
					n++
				}
			}
			u, err, pan := compileCode(ir.Code{Instructions: instrs, Registers: regs}, []ir.Constant{ir.NilType{}})
			line := result(id, u, err, pan, useAt)
			if u != nil && err == nil && pan == nil {
				for _, k := range u.Constants {
					if cc, ok := k.(code.Code); ok {
						line += fmt.Sprintf(" regs=%x cells=%x", cc.RegCount, cc.CellCount)
					}
				}
			}
			fmt.Fprintln(out, line)
		case "const", "clos":
			// n loads spread over m = ceil(n/30000) child functions (a function may not exceed 32767
			// opcodes): constant 0 is the main function, 1..m the children, m+j the j-th loaded constant
			n := int(hexi(f[2]))
			at := ints(f[3])
			const chunk = 30000
			m := (n + chunk - 1) / chunk
			extra := make([]ir.Constant, 0, m+n)
			main := ir.Code{Registers: []ir.RegData{{}}}
			for c := 0; c < m; c++ {
				extra = append(extra, nil) // placeholder for child c (constant index c+1)
				main.Instructions = append(main.Instructions, ir.MkClosure{Dst: 0, Code: uint(c + 1)})
			}
			for c := 0; c < m; c++ {
				child := ir.Code{Name: "child", Registers: []ir.RegData{{}}}
				for j := c * chunk; j < n && j < (c+1)*chunk; j++ {
					kidx := uint(m + 1 + j)
					if f[1] == "const" {
						extra = append(extra, ir.Float(float64(j)+0.5))
						child.Instructions = append(child.Instructions, ir.LoadConst{Dst: 0, Kidx: kidx})
					} else {
						extra = append(extra, ir.Code{Name: strconv.Itoa(j)})
						child.Instructions = append(child.Instructions, ir.MkClosure{Dst: 0, Code: kidx})
					}
				}
				child.Lines = make([]int, len(child.Instructions))
				extra[c] = child
			}
			u, err, pan := compileCode(main, extra)
			pos := make([]int, len(at))
			for i, k := range at {
				pos[i] = m + k - 1 // main has m opcodes, then the children's loads in order
			}
			fmt.Fprintln(out, result(id, u, err, pan, pos))
		case "etc", "fill", "cltrunc":
			v := int(hexi(f[2]))
			regs := []ir.RegData{{}, {}}
			var ins ir.Instruction
			switch f[1] {
			case "etc":
				ins = ir.EtcLookup{Dst: 0, Etc: 1, Idx: v}
			case "fill":
				ins = ir.FillTable{Dst: 0, Etc: 1, Idx: v}
			default:
				ins = ir.TruncateCloseStack{Height: v}
			}
			u, err, pan := compileCode(ir.Code{Instructions: []ir.Instruction{ir.TakeRegister{Reg: 0}, ir.TakeRegister{Reg: 1}, ins}, Registers: regs}, nil)
			fmt.Fprintln(out, result(id, u, err, pan, []int{0}))
		case "jump":
			kind := f[2]
			from, to, ln := int(hexi(f[3])), int(hexi(f[4])), int(hexi(f[5]))
			regs := []ir.RegData{{}}
			var jmp ir.Instruction
			switch kind {
			case "j":
				jmp = ir.Jump{Label: 7}
			case "jif":
				jmp = ir.JumpIf{Cond: 0, Label: 7}
			default:
				jmp = ir.JumpIf{Cond: 0, Label: 7, Not: true}
			}
			filler := ir.LoadConst{Dst: 0, Kidx: nilK}
			var instrs []ir.Instruction
			// a function of exactly ln opcodes: the jump at address from, the label at address to (<= ln)
			for addr := 0; addr < ln; addr++ {
				if addr == to {
					instrs = append(instrs, ir.DeclareLabel{Label: 7})
				}
				if addr == from {
					instrs = append(instrs, jmp)
				} else {
					instrs = append(instrs, filler)
				}
			}
			if to == ln {
				instrs = append(instrs, ir.DeclareLabel{Label: 7})
			}
			u, err, pan := compileCode(ir.Code{Instructions: instrs, Registers: regs}, []ir.Constant{ir.NilType{}})
			if pan != nil || err != nil {
				fmt.Fprintln(out, result(id, u, err, pan, nil))
				break
			}
			w := u.Code[from]
			cls := "E"
			if int(w.GetOffset()) != to-from {
				cls = "T" // the opcode the VM will execute does not carry the requested distance
			}
			fmt.Fprintf(out, "%s %s %x\n", id, cls, uint32(w))
		default:
			fmt.Fprintln(out, id, "?")
		}
	}
}

func main() {
	if len(os.Args) < 2 {
		fmt.Fprintln(os.Stderr, "usage: gvh-limits enc|lim|lua")
		os.Exit(2)
	}
	in := bufio.NewScanner(os.Stdin)
	in.Buffer(make([]byte, 1<<20), 1<<28)
	out := bufio.NewWriterSize(os.Stdout, 1<<20)
	defer out.Flush()
	switch os.Args[1] {
	case "enc":
		encEngine(in, out)
	case "lim":
		limEngine(in, out)
	case "codelen":
		codelenEngine(in, out, false)
	case "dump":
		codelenEngine(in, out, true)
	case "regpool":
		regpoolEngine(in, out)
	case "lua":
		// GVH_MAXSTACK=<bytes>: lower Go's per-goroutine stack limit (default 1 GB) so that
		// unbounded Go recursion is observed as "fatal error: stack overflow" quickly
		if v, err := strconv.Atoi(os.Getenv("GVH_MAXSTACK")); err == nil && v > 0 {
			debug.SetMaxStack(v)
		}
		hx.LuaEngine(in, out, os.Args[2:])
	default:
		fmt.Fprintln(os.Stderr, "unknown engine", os.Args[1])
		os.Exit(2)
	}
}
