package main

// Table-function cases.
//
//	<id> T<op> mode=plain|proxy len=<i<hex>|-> t1=<k=v;k=v|-> [t2=..] keys=<hex,hex..> [err=<n>] [cmp=<kind>] -- <arg> ...
//
// args are values (i<hex>, s<hex>, n, b0, b1) or @1 / @2 (the table objects).
// In proxy mode a table object is an empty table whose metatable forwards
// __index/__newindex to a hidden backing table and logs every access;
// __len returns len (or the backing table's border when len is '-'); the
// err-th access raises "injected".
//
// Events per case (each one emit call):
//
//	L,<border of the backing table of t1 before the call>
//	R,<pcall ok>,<results…>            tables shown as s"@1" s"@2" s"@new"
//	cn,<k>,<v>                         contents of a new result table (pack)
//	c1,<k>,<v> / c2,<k>,<v>            final contents of the backing tables
//	g1,<k> / s1,<k>,<v> / l1 …         the access log (proxy mode)
//	-                                  end of case

import (
	"strconv"
	"strings"

	rt "github.com/arnodel/golua/runtime"
)

const tabDriver = `
local cases = ...
local T = table
local S = string
local rawget, rawequal, setmetatable, pcall, type, error = rawget, rawequal, setmetatable, pcall, type, error
local function mk(c, no, ctl)
  local back = {}
  local kv = c["t" .. no]
  if kv then for i = 1, kv.n, 2 do back[kv[i]] = kv[i + 1] end end
  if c.mode == "plain" then return back, back end
  local mt = {}
  local function tick()
    ctl.n = ctl.n + 1
    if ctl.n == c.err then error("injected", 0) end
  end
  mt.__index = function(_, k) emit("g" .. no, k); tick(); return back[k] end
  mt.__newindex = function(_, k, v) emit("s" .. no, k, v); tick(); back[k] = v end
  mt.__len = function() emit("l" .. no); if c.len ~= nil then return c.len else return #back end end
  return setmetatable({}, mt), back
end
local function cmpf(kind, ctl)
  if kind == "lt" then return function(a, b) return a < b end end
  if kind == "gt" then return function(a, b) return a > b end end
  if kind == "le" then return function(a, b) return a <= b end end
  if kind == "true" then return function() return true end end
  if kind == "false" then return function() return false end end
  if kind == "nil" then return function() end end
  if kind == "mod3" then return function(a, b) return a % 3 < b % 3 end end
  -- "returns true" in the manual means a true VALUE: anything but false and nil
  if kind == "lt0" then return function(a, b) if a < b then return 0 end end end          -- 0 / nothing at all
  if kind == "ltstr" then return function(a, b) return a < b and "" or nil end end        -- "" / nil
  if kind == "lttab" then return function(a, b) return a < b and {} or false end end      -- a table / false
  if kind == "ltand" then return function(a, b) return a < b and b end end                -- the second operand / false
  if kind == "ltfind" then return function(a, b) return (S.find(a < b and "xy" or "x", "y", 1, true)) end end  -- a position / nil
  if kind == "ltmulti" then return function(a, b) return a < b, not (a < b), 1 end end    -- only the first result counts
  if kind == "ltfun" then return function(a, b) return a < b and print or nil end end     -- a function / nil
  if kind == "ltnan" then return function(a, b) if a < b then return 0/0 end return nil end end  -- NaN is a true value
  if kind:sub(1, 4) == "rand" then
    local st = tonumber(kind:sub(5))
    return function() st = (st * 1103515245 + 12345) % 2147483648; return (st // 65536) % 2 == 0 end
  end
  if kind:sub(1, 3) == "err" then
    local k = tonumber(kind:sub(4))
    local n = 0
    return function(a, b) n = n + 1; if n == k then error("cmp", 0) end; return a < b end
  end
  -- not functions: table.sort must refuse them whatever the table is
  if kind == "bad42" then return 42 end
  if kind == "badstr" then return "x" end
  if kind == "badtrue" then return true end
  if kind == "badcall" then return setmetatable({}, {__call = function(_, a, b) return a < b end}) end
  if kind == "yield" then return function(a, b) coroutine.yield(); return a < b end end
  error("bad cmp " .. kind)
end
for k = 1, #cases do
  local c = cases[k]
  local ctl = {n = 0}
  local o1, b1 = mk(c, 1, ctl)
  local o2, b2
  if c.t2 then o2, b2 = mk(c, 2, ctl) end
  local n = c.n
  local a = {}
  for i = 1, n do
    local v = c[i]
    if v == "@1" then v = o1 elseif v == "@2" then v = o2 end
    a[i] = v
  end
  local f = T[c.op]
  local r
  emit("L", #b1)
  if c.op == "sort" then
    local cf
    if c.cmp and c.cmp ~= "none" then cf = cmpf(c.cmp, ctl) end
    if c.cmp == "yield" then
      local co = coroutine.wrap(function() return pcall(f, o1, cf) end)
      local steps = 0
      local res
      repeat res = T.pack(co()); steps = steps + 1 until res.n > 0 or steps > 100000
      r = res
    else
      r = T.pack(pcall(f, o1, cf))
    end
  elseif n == 0 then r = T.pack(pcall(f))
  elseif n == 1 then r = T.pack(pcall(f, a[1]))
  elseif n == 2 then r = T.pack(pcall(f, a[1], a[2]))
  elseif n == 3 then r = T.pack(pcall(f, a[1], a[2], a[3]))
  elseif n == 4 then r = T.pack(pcall(f, a[1], a[2], a[3], a[4]))
  elseif n == 5 then r = T.pack(pcall(f, a[1], a[2], a[3], a[4], a[5]))
  else r = T.pack(pcall(f, T.unpack(a, 1, n))) end
  local newt
  for i = 1, r.n do
    local v = r[i]
    if type(v) == "table" then
      if rawequal(v, o1) then r[i] = "@1" elseif rawequal(v, o2) then r[i] = "@2" else newt = v; r[i] = "@new" end
    end
  end
  if r.n <= 8 then emit("R", r[1], r[2], r[3], r[4], r[5], r[6], r[7], r[8], "#", r.n)
  else
    emit("RN", r.n)
    for i = 1, r.n do emit("r", r[i]) end
  end
  -- contents are probed key by key (the keys the check is interested in come with the case);
  -- a traversal with next is avoided on purpose: it is C03's subject, not ours
  local keys = c.keys
  local function dumpc(tag, b)
    for i = 1, keys.n do
      local v = rawget(b, keys[i])
      if v ~= nil then emit(tag, keys[i], v) end
    end
  end
  if newt then
    local nn = rawget(newt, "n")
    emit("cn", "n", nn)
    if type(nn) == "number" then
      for i = 0, nn + 2 do
        local v = rawget(newt, i)
        if v ~= nil then emit("cn", i, v) end
      end
    end
  end
  dumpc("c1", b1)
  if b2 then dumpc("c2", b2) end
  emit()
end
`

func parseContents(s string) rt.Value {
	t := rt.NewTable()
	n := 0
	if s != "-" && s != "" {
		for _, kv := range strings.Split(s, ";") {
			i := strings.IndexByte(kv, '=')
			n++
			t.Set(rt.IntValue(int64(n)), parseArg(kv[:i]))
			n++
			t.Set(rt.IntValue(int64(n)), parseArg(kv[i+1:]))
		}
	}
	t.Set(rt.StringValue("n"), rt.IntValue(int64(n)))
	return rt.TableValue(t)
}

func tabCaseValue(k kase) rt.Value {
	t := rt.NewTable()
	set := func(key string, v rt.Value) { t.Set(rt.StringValue(key), v) }
	set("op", rt.StringValue(k.f[0][1:]))
	i := 1
	for ; i < len(k.f) && k.f[i] != "--"; i++ {
		kv := k.f[i]
		j := strings.IndexByte(kv, '=')
		if j < 0 {
			continue
		}
		key, val := kv[:j], kv[j+1:]
		switch key {
		case "mode", "cmp":
			set(key, rt.StringValue(val))
		case "len":
			if val != "-" {
				set(key, parseArg(val))
			}
		case "t1", "t2":
			set(key, parseContents(val))
		case "keys":
			kt := rt.NewTable()
			n := 0
			if val != "" && val != "-" {
				for _, h := range strings.Split(val, ",") {
					n++
					kt.Set(rt.IntValue(int64(n)), parseArg("i"+h))
				}
			}
			kt.Set(rt.StringValue("n"), rt.IntValue(int64(n)))
			set(key, rt.TableValue(kt))
		case "err":
			n, _ := strconv.ParseInt(val, 10, 64)
			set(key, rt.IntValue(n))
		}
	}
	n := 0
	for i++; i < len(k.f); i++ {
		n++
		a := k.f[i]
		if a == "@1" || a == "@2" {
			t.Set(rt.IntValue(int64(n)), rt.StringValue(a))
		} else {
			t.Set(rt.IntValue(int64(n)), parseArg(a))
		}
	}
	set("n", rt.IntValue(int64(n)))
	return rt.TableValue(t)
}
