// gvh-strlib — Go side of the C19 correspondence check.
//
// Reads library-call cases (one per line), runs them on the real golua runtime
// through hx.RunLuaCase in batches (one fresh runtime per batch, a small Lua
// driver chunk loops over the batch and reports every call through emit), and
// prints one line per case:
//
//	input : <id> <fn> <arg> ...          string functions; args: s<hex>|s-  i<hex>  n
//	        <id> T<op> <spec> ...        table functions (see tabDriver)
//	output: <id> <event>                 the values given to emit, canonical form
//	        <id> GOPANIC <hex msg>       the batch died in a Go panic at this case
//	        <id> BATCHFAIL <status> <hex msg>
package main

import (
	"bufio"
	"encoding/hex"
	"fmt"
	"os"
	"strconv"
	"strings"

	"gvharness/hx"

	rt "github.com/arnodel/golua/runtime"
)

const strDriver = `
local cases = ...
local S = string
for k = 1, #cases do
  local c = cases[k]
  local f = S[c[1]]
  if c[1] == "gmatch" then f = function(...) return S.gmatch(...)() end end   -- first match of the iteration
  local n = c.n
  if n == 0 then emit(pcall(f))
  elseif n == 1 then emit(pcall(f, c[2]))
  elseif n == 2 then emit(pcall(f, c[2], c[3]))
  elseif n == 3 then emit(pcall(f, c[2], c[3], c[4]))
  elseif n == 4 then emit(pcall(f, c[2], c[3], c[4], c[5]))
  else emit(pcall(f, table.unpack(c, 2, n + 1))) end
  emit()
end
`

func parseArg(a string) rt.Value {
	switch {
	case a == "n":
		return rt.NilValue
	case a == "b1":
		return rt.BoolValue(true)
	case a == "b0":
		return rt.BoolValue(false)
	case a == "s-":
		return rt.StringValue("")
	case a[0] == 's':
		b, err := hex.DecodeString(a[1:])
		if err != nil {
			panic("bad string arg " + a)
		}
		return rt.StringValue(string(b))
	case a == "t":
		return rt.TableValue(rt.NewTable()) // any table (argument-type cases)
	case a[0] == 'f':
		return hx.ParseValue(a) // f<16 hex digits of the IEEE bits>
	case a[0] == 'i':
		h := a[1:]
		neg := false
		if h[0] == '-' {
			neg = true
			h = h[1:]
		}
		u, err := strconv.ParseUint(h, 16, 64)
		if err != nil {
			panic("bad int arg " + a)
		}
		if neg {
			return rt.IntValue(-int64(u)) // two's complement: -2^63 maps to itself
		}
		return rt.IntValue(int64(u))
	}
	panic("bad arg " + a)
}

type kase struct {
	id string
	f  []string
}

func strCaseValue(k kase) rt.Value {
	t := rt.NewTable()
	fn := k.f[0]
	args := k.f[1:]
	t.Set(rt.IntValue(1), rt.StringValue(fn))
	if fn == "find" {
		// plain find: string.find(s, p, init, true); with no init: string.find(s, p) is only
		// used for the empty pattern (same Go branch)
		if len(args) >= 3 {
			args = append(append([]string{}, args...), "b1")
		}
	}
	for i, a := range args {
		t.Set(rt.IntValue(int64(i+2)), parseArg(a))
	}
	t.Set(rt.StringValue("n"), rt.IntValue(int64(len(args))))
	return rt.TableValue(t)
}

var cpuLimit uint64

func runBatch(out *bufio.Writer, batch []kase, driver string, mk func(kase) rt.Value) {
	for len(batch) > 0 {
		tbl := rt.NewTable()
		for i, k := range batch {
			tbl.Set(rt.IntValue(int64(i+1)), mk(k))
		}
		res := hx.RunLuaCase(hx.LuaCase{Id: "b", Src: []byte(driver), Mode: "t", Chunk: "driver",
			Args: []rt.Value{rt.TableValue(tbl)}, Cpu: cpuLimit, Limited: cpuLimit > 0})
		// one case = the events up to the next empty event "-"
		n := 0
		var evs []string
		for _, e := range res.Trace {
			if e == "-" {
				if n < len(batch) {
					if len(evs) == 0 {
						evs = []string{"-"}
					}
					fmt.Fprintf(out, "%s %s\n", batch[n].id, strings.Join(evs, ";"))
				}
				n++
				evs = evs[:0]
			} else {
				evs = append(evs, e)
			}
		}
		if n >= len(batch) {
			out.Flush()
			return
		}
		// the batch stopped at case n
		if res.Status == "gopanic" {
			fmt.Fprintf(out, "%s GOPANIC %s\n", batch[n].id, res.Errmsg)
		} else {
			fmt.Fprintf(out, "%s BATCHFAIL %s %s\n", batch[n].id, res.Status, res.Errmsg)
		}
		out.Flush()
		batch = batch[n+1:]
	}
}

func main() {
	bsize := 2000
	if len(os.Args) > 1 {
		if n, err := strconv.Atoi(os.Args[1]); err == nil && n > 0 {
			bsize = n
		}
	}
	if len(os.Args) > 2 && strings.HasPrefix(os.Args[2], "cpu=") {
		// run every batch under a CPU limit (used for calls the model predicts never to terminate)
		cpuLimit, _ = strconv.ParseUint(os.Args[2][4:], 10, 64)
	}
	in := bufio.NewScanner(os.Stdin)
	in.Buffer(make([]byte, 1<<20), 1<<28)
	out := bufio.NewWriterSize(os.Stdout, 1<<20)
	defer out.Flush()
	var sb, tb []kase
	flush := func() {
		if len(sb) > 0 {
			runBatch(out, sb, strDriver, strCaseValue)
			sb = nil
		}
		if len(tb) > 0 {
			runBatch(out, tb, tabDriver, tabCaseValue)
			tb = nil
		}
	}
	for in.Scan() {
		f := strings.Fields(in.Text())
		if len(f) < 2 {
			continue
		}
		k := kase{id: f[0], f: f[1:]}
		if f[1][0] == 'T' {
			// keep the output in input order: flush the other kind first
			if len(sb) > 0 {
				flush()
			}
			tb = append(tb, k)
		} else {
			if len(tb) > 0 {
				flush()
			}
			sb = append(sb, k)
		}
		if len(sb)+len(tb) >= bsize {
			flush()
		}
	}
	flush()
}
