module gvharness

go 1.17

require github.com/arnodel/golua v0.0.0

require github.com/arnodel/strftime v0.1.6 // indirect

replace github.com/arnodel/golua => /repo
