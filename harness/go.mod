module gvharness

go 1.17

require github.com/arnodel/golua v0.0.0

replace github.com/arnodel/golua => /repo
